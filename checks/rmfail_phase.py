"""Monitor-only phase for C01 and C12: the data plane REFUSES TO REMOVE an installed rule (ModelDP entry "rmfail").

The Coq model's data plane removes whatever is installed (C01's quantifier names failing create / update / query calls), so
these histories are not compared with the model; they are judged by the trace rules of mon_c01 (containment: what the data
plane holds is recorded by a live session; a session that ended leaves nothing behind - the removal is refused only in
Modification Requests, never while the session ends) and, for C12, by expectations that follow from the property text for
the constructed history: a PDR whose removal was refused still refers to its URRs; when the last referrer is finally
removed the URR's usage comes back once, as a termination report, in that very response."""
import random

from lib import common
from checks import pfcp_common as pc

TERMR = pc.TERMR


def _rc(peer, seq, msg, **kw):
    return dict({"t": "recv", "peer": peer, "seq": seq, "msg": msg, "fail": [], "usage": []}, **kw)


def _q(u, v):
    return {"op": "query", "id": u, "rpts": [{"urr": u, "trig": 0, "vflags": 0, "cnt": [v, 2, 3, 4, 5, 6], "dur": 0, "start": 1, "end": 2}]}


def cases(rnd, n):
    out = []
    kinds = [("rFAR", "far"), ("rQER", "qer"), ("rURR", "urr"), ("rBAR", "bar"), ("rPDR", "pdr")]
    for i in range(n):
        opk, kind = kinds[i % len(kinds)]
        rid = rnd.choice([1, 2])
        est = {"cFAR": [1, 2], "cQER": [1, 2], "cBAR": [1, 2],
               "cURR": [{"id": 1, "method": 2, "info": 0}, {"id": 2, "method": 2, "info": 0}],
               "cPDR": [{"id": 1, "urrs": [1], "ueip": False}, {"id": 2, "urrs": [1, 2], "ueip": False}]}
        evs = [_rc(0, 1, {"k": "asr", "nid": {"v": 0}}), _rc(1, 1, {"k": "asr", "nid": {"v": 1}}),
               _rc(0, 2, {"k": "est", "nid": {"v": 0}, "fseid": {"v": 10}, "ops": est}),
               _rc(1, 2, {"k": "est", "nid": {"v": 1}, "fseid": {"v": 20}, "ops": {"cFAR": [1]}})]
        seq = 3
        expect = {}
        # the removal is refused
        evs.append(_rc(0, seq, {"k": "mod", "seid": 1, "nid": {"absent": True}, "ops": {opk: [rid]}},
                       fail=[{"op": "rmfail", "kind": kind, "id": rid}]))
        seq += 1
        tail = rnd.choice(["again", "other", "none"])
        if tail == "again":           # the SMF repeats the removal, now accepted
            evs.append(_rc(0, seq, {"k": "mod", "seid": 1, "nid": {"absent": True}, "ops": {opk: [rid]}},
                           usage=[_q(1, 7), _q(2, 8)] if opk == "rPDR" else []))
            seq += 1
        elif tail == "other":
            evs.append(_rc(0, seq, {"k": "mod", "seid": 1, "nid": {"absent": True}, "ops": {"cFAR": [5]}}))
            seq += 1
        if opk == "rPDR" and tail == "again":
            # PDR `rid` is gone now; removing the other PDR detaches the last referrer of URR 1 (and of URR 2 if it is PDR 2)
            other = 3 - rid
            evs.append(_rc(0, seq, {"k": "mod", "seid": 1, "nid": {"absent": True}, "ops": {"rPDR": [other]}}, usage=[_q(1, 7), _q(2, 8)]))
            expect[len(evs) - 1] = sorted([1] + ([2] if other == 2 else []))
            if rid == 2:
                expect[len(evs) - 2] = [2]      # the accepted removal of PDR 2 already detached URR 2's only referrer
            else:
                expect[len(evs) - 2] = []
            seq += 1
        end = rnd.choice(["del", "asr", "srr0"])
        if end == "del":
            evs.append(_rc(0, seq, {"k": "del", "seid": 1}))
        elif end == "asr":
            evs.append(_rc(0, seq, {"k": "asr", "nid": {"v": 0}}))
        else:
            evs.append({"t": "report", "seid": 1, "items": [{"dld": {"pdr": 1, "action": 12, "pkt": "aabb"}}], "fail": [], "usage": []})
            evs.append({"t": "recv", "peer": 0, "seq": 0, "msg": {"k": "srr", "hdr": 0}, "fail": [], "usage": []})
        evs.append(_rc(1, 3, {"k": "mod", "seid": 2, "nid": {"absent": True}, "ops": {"cFAR": [2]}}))
        out.append({"maxretrans": 1, "txseq0": 0, "events": evs, "expect_termr": {str(k): v for k, v in expect.items()}})
    return out


def monitor(prop, case, obs, prefix):
    bad = pc.mon_c01(case, obs, prefix)
    if bad or prop != "C12":
        return bad
    for i, ev, o, prev, prev_dp, dup in pc.walk(case, obs, prefix):
        want = case.get("expect_termr", {}).get(str(i))
        if want is None:
            continue
        rsp = [x for x in (o["sends"] or []) if x["type"] == "modrsp"]
        got = sorted(ie["urr"] for x in rsp for ie in (x["urs"] or []) if ie["trig"] & TERMR)
        if got != want:
            bad.append((i, "after a refused and then repeated Remove PDR: the response carries termination reports for URRs %s, expected %s "
                           "(a PDR whose removal the data plane refused still refers to its URRs)" % (got, want)))
    return bad


def phase(prop):
    def run(ctx, info, coverage):
        rnd = random.Random(ctx.seed * 104729 + 5)
        cs = cases(rnd, 30 if ctx.tier == "quick" else 600)
        res, err = common.run_harness(ctx, info["harness"], "pfcp", cs, timeout=600, tag="-rmfail")
        if not res:
            ctx.violation({"property": prop, "broken": "refused-removal phase did not run: %s" % (err or "")[-600:]}, no_input=True)
            return
        coverage["refused_removal_histories"] = len(cs)
        coverage["evaluations"] = coverage.get("evaluations", 0) + len(cs)
        reported = 0
        for c, o in zip(cs, res["cases"]):
            f = monitor(prop, c, o, res["prefix"])
            if f and reported < 2:
                reported += 1
                ctx.violation({"property": prop, "what": f[0][1], "all_failures": f[:5], "mode": "pfcp (refused-removal phase, monitor only)",
                               "case": c, "implementation_trace": o})
    return run
