"""Real-timer phase of C06 and C09: the real PfcpServer with real AfterFunc timers (retransmission time-out 150-250 ms),
time-stamped observations, monitors that restate the two properties over timed traces.  The PFCP correspondence runs
inject time-outs as events and never execute the timer callbacks, TxTransaction.recv's timer.Stop() or the retention
timer; this phase does.  Timing tolerance: a third of the time-out; a failing case is re-run twice and reported only
if it fails every time (a late scheduler must not raise an alarm)."""
import json
import os
import random
import subprocess
from concurrent.futures import ThreadPoolExecutor

from lib import common

E = {"fail": [], "usage": []}


def rc(peer, seq, msg):
    return dict({"t": "recv", "peer": peer, "seq": seq, "msg": msg}, **E)


def ev(at, event, hold=0):
    return {"at_ms": int(at), "kind": "event", "event": event, "hold_ms": int(hold)}


def dump(at):
    return {"at_ms": int(at), "kind": "dump"}


def prefix_steps(peers=(0,)):
    st = []
    t = 0
    for p in peers:
        st.append(ev(t, rc(p, 1, {"k": "asr", "nid": {"v": p}})))
        t += 15
    return st, t


def dld(seid, nocp=True):
    return dict({"t": "report", "seid": seid, "items": [{"dld": {"pdr": 1, "action": 12 if nocp else 4, "pkt": "aa"}}]}, **E)


def mod(seid, far):
    return {"k": "mod", "seid": seid, "nid": {"absent": True}, "ops": {"cFAR": [far]}}


def scenarios(rnd):
    out = []
    # --- C06: duplicate inside the window, sequence number re-used after the window, duplicate of the re-use
    for _ in range(2):
        T, r = rnd.choice([150, 200]), rnd.choice([0, 1, 2])
        W = T * (r + 1)
        st, t = prefix_steps()
        st.append(ev(t, rc(0, 2, {"k": "est", "nid": {"v": 0}, "fseid": {"v": 10}, "ops": {"cFAR": [1]}})))
        t1 = t + 40
        s = rnd.randrange(40, 90)
        # margins of 0.45 T around every window boundary (tolerance of the monitor: T/3)
        d1 = t1 + W - 0.45 * T            # duplicate late in the window (a stale second retention timer would end at d1 + W)
        t2 = t1 + W + 0.45 * T            # the number is used again after the window
        d2 = t2 + W - 0.45 * T            # duplicate of the second use: after d1 + W, before t2 + W
        st += [ev(t1, rc(0, s, mod(1, 11))), ev(d1, rc(0, s, mod(1, 11))),
               ev(t2, rc(0, s, mod(1, 12))), ev(d2, rc(0, s, mod(1, 12))),
               ev(d2 + 20, rc(1, s, {"k": "hb"})),          # another peer, same sequence number: not a duplicate
               dump(d2 + 40)]
        t2 = d2 - 0.7 * W
        out.append({"name": "c06-reuse", "retrans_ms": T, "maxretrans": r, "txseq0": 0, "steps": st, "end_ms": int(t2 + 0.8 * W)})
    # --- C06/C09: an SMF request carrying the sequence number of an outstanding UPF request to that SMF
    for r in (rnd.choice([0, 1]), rnd.choice([2, 3])):
        T = rnd.choice([150, 200])
        st, t = prefix_steps()
        st.append(ev(t, rc(0, 2, {"k": "est", "nid": {"v": 0}, "fseid": {"v": 10}, "ops": {"cFAR": [1]}})))
        q = rnd.choice([0, 5])
        t1 = t + 40
        st.append(ev(t1, rc(0, q, {"k": "hb"})))                       # receive transaction (peer 0, q)
        kk = rnd.randrange(0, r + 1)                                    # its retention ends between retry kk and kk+1 of the SRR
        t2 = t1 + (r + 1) * T - (kk + 0.5) * T                          # SRR first sent at t2: t1 + W = t2 + (kk + 0.5) T
        if t2 < t1 + 20:
            t2 = t1 + 20
        st.append(ev(t2, dld(1)))
        tr = t2 + (r + 0.75) * T                                        # answered just before it would be abandoned
        st += [ev(tr, dict({"t": "recv", "peer": 0, "seq": q, "msg": {"k": "srr", "hdr": 0}}, **E)), dump(tr + 60),
               ev(tr + 80, rc(0, 70, mod(1, 13))), dump(tr + 140)]
        out.append({"name": "c09-rx-tx-same-seq", "retrans_ms": T, "maxretrans": r, "txseq0": q, "steps": st, "end_ms": int(tr + 200)})
    # --- C09: the response is served while the expiry of the retransmission timer is already queued (loop busy)
    for _ in range(2):
        T, r = rnd.choice([150, 200]), rnd.choice([1, 2, 3])
        st, t = prefix_steps()
        st.append(ev(t, rc(0, 2, {"k": "est", "nid": {"v": 0}, "fseid": {"v": 10}, "ops": {"cFAR": [1]}})))
        t0 = t + 40
        seq = 100
        for k in range(6):
            st.append(ev(t0, dld(1)))                                                   # SRR with sequence number k at t0
            st.append(ev(t0 + 0.7 * T, rc(0, seq, mod(1, 20 + k)), hold=0.6 * T))        # loop busy over the expiry at t0 + T
            seq += 1
            st.append(ev(t0 + 1.1 * T, dict({"t": "recv", "peer": 0, "seq": k, "msg": {"k": "srr", "hdr": 10}}, **E)))
            st.append(dump(t0 + 1.3 * T + (r + 1.4) * T))
            t0 += 1.3 * T + (r + 1.6) * T
        out.append({"name": "c09-response-races-expiry", "retrans_ms": T, "maxretrans": r, "txseq0": 0, "steps": st, "end_ms": int(t0)})
    # --- C09: plain retry budget with real timers, answered at a random retry, wrong-peer response in between
    for _ in range(2):
        T, r = rnd.choice([150, 200]), rnd.choice([0, 1, 2, 3])
        st, t = prefix_steps((0, 1))
        st.append(ev(t, rc(0, 2, {"k": "est", "nid": {"v": 0}, "fseid": {"v": 10}, "ops": {"cFAR": [1]}})))
        t0 = t + 40
        st.append(ev(t0, dld(1)))
        ans = rnd.choice([None] + list(range(r + 1)))
        if r >= 1:
            st.append(ev(t0 + 0.5 * T, dict({"t": "recv", "peer": 1, "seq": 0, "msg": {"k": "srr", "hdr": 10}}, **E)))   # wrong peer
        if ans is not None:
            st.append(ev(t0 + (ans + 0.5) * T, dict({"t": "recv", "peer": 0, "seq": 0, "msg": {"k": "srr", "hdr": 10}}, **E)))
        st.append(dump(t0 + (r + 1.5) * T))
        out.append({"name": "c09-budget", "retrans_ms": T, "maxretrans": r, "txseq0": 0, "steps": st, "end_ms": int(t0 + (r + 1.7) * T)})
    # --- C06: the expiry of a TRANSMIT transaction must not touch the RECEIVE transaction with the same (peer, sequence number)
    for r in (1, rnd.choice([2, 3])):
        T = rnd.choice([150, 200])
        st, t = prefix_steps()
        st.append(ev(t, rc(0, 2, {"k": "est", "nid": {"v": 0}, "fseid": {"v": 10}, "ops": {"cFAR": [1]}})))
        q = rnd.choice([7, 30])
        t1 = t + 40
        st += [ev(t1, rc(0, q, mod(1, 31))),                 # receive transaction (peer 0, q), retained until t1 + (r+1) T
               ev(t1 + 0.2 * T, dld(1)),                     # Session Report Request with sequence number q, unanswered: expires at t1 + 1.2 T
               ev(t1 + 1.5 * T, rc(0, q, mod(1, 31))),        # retransmission of the SMF's request, well inside its window
               dump(t1 + 1.6 * T)]
        out.append({"name": "c06-tx-expiry-vs-rx", "retrans_ms": T, "maxretrans": r, "txseq0": q, "steps": st, "end_ms": int(t1 + 1.7 * T)})
    # --- C06: a request that is never answered is released after the window too; its number can then be used again
    for _ in range(1):
        T, r = rnd.choice([150, 200]), rnd.choice([0, 1])
        W = T * (r + 1)
        s_ = rnd.randrange(40, 90)
        st = [ev(0, rc(1, s_, {"k": "est", "nid": {"v": 1}, "fseid": {"v": 10}, "ops": {"cFAR": [1]}})),     # no association: dropped, no answer
              ev(W + 0.45 * T, rc(1, s_, {"k": "asr", "nid": {"v": 1}})),
              dump(W + 0.45 * T + 40)]
        out.append({"name": "c06-unanswered-released", "retrans_ms": T, "maxretrans": r, "txseq0": 0, "steps": st, "end_ms": int(W + 0.45 * T + 80)})
    # --- C09: every write to the peer fails (node id 192.0.2.x from a loopback-bound socket): the request is still retried on
    #     schedule (each retry fails too), abandoned after the budget, and its bookkeeping released
    for r in (rnd.choice([1, 2]), 3):
        T = rnd.choice([150, 200])
        st = [ev(0, rc(0, 1, {"k": "asr", "nid": {"v": 1077}})),
              ev(15, rc(0, 2, {"k": "est", "nid": {"v": 1077}, "fseid": {"v": 10}, "ops": {"cFAR": [1]}})),
              ev(25, rc(1, 1, {"k": "asr", "nid": {"v": 1}})),
              ev(35, rc(1, 2, {"k": "est", "nid": {"v": 1}, "fseid": {"v": 20}, "ops": {"cFAR": [1]}}))]
        t0 = 60
        # a second report, for a session of a reachable peer, while the first request is outstanding: the two requests
        # carry different sequence numbers although the first one's initial write failed
        st += [ev(t0, dld(1)), ev(t0 + 0.25 * T, dld(2)), dump(t0 + 0.5 * T), dump(t0 + (r + 1.6) * T)]
        out.append({"name": "c09-unreachable-peer", "retrans_ms": T, "maxretrans": r, "txseq0": 0, "steps": st,
                    "end_ms": int(t0 + (r + 1.8) * T), "unreachable": "192.0.2.77"})
    for c in out:
        c["steps"].sort(key=lambda s: s["at_ms"])
    return out


# ---------------------------------------------------------------- monitors over a timed trace

def _deliveries(case, o):
    res = []
    for st, t in zip(case["steps"], o["step_times"]):
        if st["kind"] == "event":
            res.append((t, st["event"]))
    return res


def mon_c06_timed(case, o):
    """a request received again from the same peer with the same sequence number inside the retention window is not
    executed (no driver call) and is answered with the bytes of the first answer; outside the window it is a new request"""
    bad = []
    T, r = case["retrans_ms"], case["maxretrans"]
    W, tol = T * (r + 1), T / 3.0
    dels = [(t, e) for t, e in _deliveries(case, o) if e["t"] == "recv" and e["msg"]["k"] not in ("srr",)]
    first = {}
    for idx, (t, e) in enumerate(dels):
        key = (e["peer"], e["seq"])
        nxt = dels[idx + 1][0] if idx + 1 < len(dels) else 10**9
        calls = [c for c in o["drv"] or [] if t <= c["t_ms"] < nxt]
        rsp = [d for d in o["datagrams"] or [] if d["send"]["dst"] == e["peer"] and d["send"]["seq"] == e["seq"]
               and d["send"]["type"] != "srreq" and t <= d["t_ms"] < nxt]
        f = first.get(key)
        if f == "unknown":
            continue
        if f is not None and f["t"] + W - tol <= t <= f["t"] + W + tol:
            first[key] = "unknown"      # too close to the end of the window to say which it must be: nothing asserted from here on
            continue
        if f is not None and t < f["t"] + W - tol:
            if calls:
                bad.append("retransmission of request (peer %d, seq %d) %d ms after the first copy (window %d ms) was executed again: %s"
                           % (key[0], key[1], t - f["t"], W, [(c["op"], c["kind"], c["id"]) for c in calls]))
            if f["rsp"] and [d["send"]["hex"] for d in rsp] != [f["rsp"][0]]:
                bad.append("retransmission of request (peer %d, seq %d) was not answered with the bytes of the first answer" % key)
        elif f is None or t > f["t"] + W + tol:
            if e["msg"]["k"] in ("asr", "hb") and not rsp:
                bad.append("request (peer %d, seq %d) received %s was not answered" % (
                    key[0], key[1], "for the first time" if f is None else "%d ms after an earlier use of the number (window %d ms)" % (t - f["t"], W)))
            accepted = any(d["send"]["type"] == "modrsp" and d["send"]["cause"] == 1 for d in rsp)
            if e["msg"]["k"] == "mod" and accepted and not calls:
                bad.append("request (peer %d, seq %d) received %s was not executed" % (
                    key[0], key[1], "for the first time" if f is None else "%d ms after an earlier use of the number (window %d ms)" % (t - f["t"], W)))
            first[key] = {"t": t, "rsp": [d["send"]["hex"] for d in rsp]}
    return bad


def mon_c09_timed(case, o):
    """every Session Report Request: retransmissions byte-identical, never earlier than a multiple of the time-out after the
    first copy, at most maxRetrans of them, none after a response from the peer it was sent to; such a response takes
    effect while the request is outstanding; the bookkeeping is gone afterwards"""
    bad = []
    T, r = case["retrans_ms"], case["maxretrans"]
    tol = T / 3.0
    by = {}
    for d in o["datagrams"] or []:
        if d["send"]["type"] == "srreq":
            by.setdefault((d["send"]["dst"], d["send"]["seq"]), []).append(d)
    rsps = [(t, e) for t, e in _deliveries(case, o) if e["t"] == "recv" and e["msg"]["k"] == "srr"]
    held = any(st.get("hold_ms") for st in case["steps"])
    for (dst, seq), ds in sorted(by.items()):
        t0 = ds[0]["t_ms"]
        if len(ds) - 1 > r:
            bad.append("Session Report Request (peer %d, seq %d) was retransmitted %d times, the budget is %d" % (dst, seq, len(ds) - 1, r))
        if any(d["send"]["hex"] != ds[0]["send"]["hex"] for d in ds):
            bad.append("a retransmission of Session Report Request (peer %d, seq %d) differs from the first transmission" % (dst, seq))
        for k, d in enumerate(ds[1:], 1):
            if d["t_ms"] < t0 + k * T - tol:
                bad.append("retransmission %d of Session Report Request (peer %d, seq %d) came %d ms after the first copy, time-out %d ms"
                           % (k, dst, seq, d["t_ms"] - t0, T))
        mine = [t for t, e in rsps if e["peer"] == dst and e["seq"] == seq and t > t0]
        if mine:
            tr = mine[0]
            late = [d for d in ds if d["t_ms"] > tr + tol + (0.6 * T if held else 0)]
            if late and tr < t0 + (r + 1) * T - tol:
                bad.append("Session Report Request (peer %d, seq %d) was retransmitted %d ms after its response had arrived" % (dst, seq, late[0]["t_ms"] - tr))
        # bookkeeping: in every dump taken after the request must have been retired, the transaction is gone
        end = (mine[0] if mine and mine[0] < t0 + (r + 1) * T - tol else t0 + (r + 1) * T) + tol + (0.6 * T if held else 0)
        for dmp in o["dumps"] or []:
            keys = [x["key"] for x in (dmp["dump"].get("tx") or [])]
            k = "%s%d:8805-%d" % (o["prefix"], 10 + dst, seq)
            if dmp["t_ms"] > end and k in keys:
                bad.append("transaction of Session Report Request (peer %d, seq %d) still in the table %d ms after it was retired" % (dst, seq, dmp["t_ms"] - end))
            if not mine and t0 + tol < dmp["t_ms"] < t0 + (r + 1) * T - tol and k not in keys:
                bad.append("transaction of Session Report Request (peer %d, seq %d) released %d ms after the first copy, before the retry budget (%d x %d ms) was used"
                           % (dst, seq, dmp["t_ms"] - t0, r + 1, T))
    if case.get("unreachable"):
        # nothing reaches anybody; judged on the transaction table: present while the budget lasts, released afterwards
        t0 = [t for t, e in _deliveries(case, o) if e["t"] == "report"][0]
        for dmp in o["dumps"] or []:
            keys = [x["key"] for x in (dmp["dump"].get("tx") or [])]
            seqs = [k.rsplit("-", 1)[-1] for k in keys]
            if len(set(seqs)) != len(seqs):
                bad.append("two outstanding Session Report Requests carry the same sequence number: %s" % sorted(keys))
            if t0 + 0.25 * T + tol / 2 < dmp["t_ms"] < t0 + T - tol and len(keys) < 2:
                bad.append("%d ms after two reports (one towards a peer every write to which fails) the transaction table holds %s: "
                           "one request took the other's place" % (dmp["t_ms"] - t0, sorted(keys)))
            mine = [k for k in keys if k.startswith(case["unreachable"] + ":8805-")]
            if dmp["t_ms"] > t0 + (r + 1) * T + tol and mine:
                bad.append("transaction %s (every write to the peer fails) still in the table %d ms after the first attempt: budget %d x %d ms"
                           % (mine[0], dmp["t_ms"] - t0, r + 1, T))
            if t0 + tol < dmp["t_ms"] < t0 + (r + 1) * T - tol and not mine:
                bad.append("transaction towards %s released %d ms after the first attempt, before the retry budget was used" % (case["unreachable"], dmp["t_ms"] - t0))
        return bad
    # a SEID-0 response that arrives while its request is outstanding removes the session
    for t, e in rsps:
        if e["msg"]["hdr"] != 0:
            continue
        ds = by.get((e["peer"], e["seq"]))
        if not ds:
            continue
        t0 = ds[0]["t_ms"]
        if t0 < t < t0 + (r + 1) * T - tol:
            after = [dmp for dmp in o["dumps"] or [] if dmp["t_ms"] > t]
            if after and any(s is not None for s in (after[0]["dump"].get("slots") or [])):
                bad.append("the response (header SEID 0) to Session Report Request (peer %d, seq %d), received %d ms after the request "
                           "(budget %d x %d ms), was ignored: the session is still there" % (e["peer"], e["seq"], t - t0, r + 1, T))
    return bad


def run_cases(ctx, harness, cases, tag):
    def one(k):
        inp = os.path.join(ctx.workdir, "tm-in-%s-%d.json" % (tag, k))
        outp = os.path.join(ctx.workdir, "tm-out-%s-%d.json" % (tag, k))
        json.dump([cases[k]], open(inp, "w"))
        try:
            p = subprocess.run([harness, "timers", inp, outp], capture_output=True, text=True, env=common.GOENV, timeout=120)
        except subprocess.TimeoutExpired:
            return {"fault": "harness hung"}
        if p.returncode != 0 or not os.path.exists(outp):
            return {"fault": "harness failed: " + p.stderr[-500:]}
        return json.load(open(outp))[0]
    with ThreadPoolExecutor(max_workers=4) as ex:
        return list(ex.map(one, range(len(cases))))


def phase(prop, monitor):
    def f(ctx, info, coverage):
        rnd = random.Random(ctx.seed + 609)
        cases = []
        for _ in range(1 if ctx.tier == "quick" else 12):
            cases += scenarios(rnd)
        outs = run_cases(ctx, info["harness"], cases, prop)
        nfail = 0
        for c, o in zip(cases, outs):
            if o.get("fault"):
                ctx.violation({"property": prop, "what": "real-timer run: " + o["fault"], "mode": "timers", "case": c})
                return
            bad = monitor(c, o)
            if bad:
                # timing: report only what fails on every one of three runs
                again = [run_cases(ctx, info["harness"], [c], prop + "-again%d" % j)[0] for j in range(2)]
                if all((not a.get("fault")) and monitor(c, a) for a in again):
                    nfail += 1
                    ctx.violation({"property": prop, "what": bad[0], "all": bad[:5], "mode": "timers", "case": c, "trace": o})
                    if nfail >= 2:
                        break
        coverage["timer_cases"] = len(cases)
        coverage["timer_scenarios"] = sorted({c["name"] for c in cases})
        coverage["timer_datagrams"] = sum(len(o.get("datagrams") or []) for o in outs)
        coverage["evaluations"] = coverage.get("evaluations", 0) + len(cases)
    return f
