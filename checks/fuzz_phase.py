"""C07, byte level: structure-aware mutation of valid PFCP messages against the real server (validation, not proof)."""
import json
import os
import random

from lib import common

GROUPED = {1, 2, 3, 4, 5, 6, 7, 9, 10, 11, 13, 14, 15, 16, 17, 18, 77, 78, 79, 80, 83, 85, 86, 87, 99}


def parse_ies(b):
    out, i = [], 0
    while i + 4 <= len(b):
        t = int.from_bytes(b[i:i + 2], "big")
        ln = int.from_bytes(b[i + 2:i + 4], "big")
        if i + 4 + ln > len(b):
            return None
        out.append((t, b[i + 4:i + 4 + ln]))
        i += 4 + ln
    return out if i == len(b) else None


def build_ies(ies):
    return b"".join(t.to_bytes(2, "big") + len(v).to_bytes(2, "big") + v for t, v in ies)


def tree(b):
    """[(type, value-bytes | subtree-list)]"""
    ies = parse_ies(b)
    if ies is None:
        return None
    out = []
    for t, v in ies:
        sub = tree(v) if t in GROUPED else None
        out.append([t, sub if sub is not None else v])
    return out


def untree(tr):
    return build_ies([(t, untree(v) if isinstance(v, list) else v) for t, v in tr])


def nodes(tr, acc):
    for n in tr:
        acc.append((tr, n))
        if isinstance(n[1], list):
            nodes(n[1], acc)
    return acc


def mutate_ies(rnd, b, depth=0):
    """structure-aware: pick ONE IE uniformly among all IEs at all nesting depths and damage it"""
    tr = tree(b)
    if not tr:
        return bytes(rnd.randrange(256) for _ in range(rnd.randrange(8)))
    parent, n = rnd.choice(nodes(tr, []))
    t, v = n
    raw = untree(v) if isinstance(v, list) else v
    choice = rnd.randrange(10)
    if not isinstance(v, list) and raw and choice < 4:
        # flag / description octets decide which optional fields an accessor reads: sweep them, and change the tail length
        j = rnd.randrange(min(2, len(raw)))
        raw = raw[:j] + bytes([rnd.randrange(256)]) + raw[j + 1:]
        d = rnd.choice([0, -1, -2, -3, -4, 1, 2, 3, 4, 3])
        raw = raw[:max(1, len(raw) + d)] if d <= 0 else raw + bytes(rnd.randrange(256) for _ in range(d))
        n[1] = raw
    elif choice == 4:                    # truncate / extend the value
        k = rnd.choice([0, 1, max(0, len(raw) - 1), len(raw) + 1, len(raw) + 3])
        n[1] = (raw + bytes(4))[:k]
    elif choice == 5:                    # a byte at a boundary value / one bit flipped
        if raw:
            j = rnd.randrange(len(raw))
            nb = rnd.choice([0, 1, 0x7f, 0x80, 0xff, raw[j] ^ (1 << rnd.randrange(8))])
            n[1] = raw[:j] + bytes([nb]) + raw[j + 1:]
    elif choice == 6:                    # unknown / other IE type
        n[0] = rnd.choice([0, 250, 999, 32767, rnd.randrange(300)])
    elif choice == 7:                    # drop / duplicate / reorder among the siblings
        op = rnd.randrange(3)
        i = parent.index(n)
        if op == 0:
            del parent[i]
        elif op == 1:
            parent.insert(i, [n[0], n[1]])
        else:
            rnd.shuffle(parent)
    elif choice == 8:                    # all-ones / all-zero value
        n[1] = bytes([rnd.choice([0, 0xff])]) * len(raw)
    else:                                # lie about the length: the enclosing lengths no longer add up
        out = untree(tr)
        pos = out.find(t.to_bytes(2, "big") + len(raw).to_bytes(2, "big") + raw[:4])
        if pos >= 0:
            bad = (rnd.choice([0, 1, len(raw) - 1, len(raw) + 1, 0xffff]) % 65536).to_bytes(2, "big")
            return out[:pos + 2] + bad + out[pos + 4:]
        return out
    return untree(tr)


def mutate(rnd, hexmsg):
    b = bytes.fromhex(hexmsg)
    if len(b) < 16:
        return bytes(rnd.randrange(256) for _ in range(rnd.randrange(20))).hex()
    has_seid = bool(b[0] & 1)
    hl = 16 if has_seid else 8
    hdr, body = bytearray(b[:hl]), b[hl:]
    c = rnd.randrange(10)
    if c < 6:
        body = mutate_ies(rnd, body)
    elif c == 6:                          # header fields
        f = rnd.randrange(5)
        if f == 0:
            hdr[0] = rnd.choice([0x00, 0x20, 0x21, 0x23, 0x40, 0xff, hdr[0] ^ 1])
        elif f == 1:
            hdr[1] = rnd.choice([0, 1, 2, 5, 6, 50, 51, 52, 53, 54, 55, 56, 57, 99, 255])
        elif f == 2 and has_seid:
            hdr[4:12] = rnd.choice([0, 2, 3, 2**63, 2**64 - 1, rnd.randrange(2**64)]).to_bytes(8, "big")
        elif f == 3:
            hdr[2:4] = rnd.choice([0, 1, 4, len(b), len(b) + 7, 0xffff]).to_bytes(2, "big")
            return (bytes(hdr) + body).hex()
        else:
            off = 12 if has_seid else 4
            hdr[off:off + 3] = rnd.randrange(2**24).to_bytes(3, "big")
    elif c == 7:                          # truncation
        full = bytes(hdr) + body
        return full[:rnd.randrange(len(full) + 1)].hex()
    elif c == 8:                          # random tail / random bytes
        body = body + bytes(rnd.randrange(256) for _ in range(rnd.randrange(1, 12)))
    else:
        return bytes(rnd.randrange(256) for _ in range(rnd.choice([0, 1, 7, 8, 15, 16, 40]))).hex()
    hdr[2:4] = (len(hdr) - 4 + len(body)).to_bytes(2, "big") if len(hdr) - 4 + len(body) < 65536 else b"\xff\xff"
    return (bytes(hdr) + body).hex()


def systematic(hexmsg):
    """every leaf IE of a valid message x flag octet position x single-bit / boundary values x tail length change"""
    b = bytes.fromhex(hexmsg)
    hl = 16 if b[0] & 1 else 8
    out = []
    tr0 = tree(b[hl:])
    nleaf = len([1 for _, n in nodes(tr0, []) if not isinstance(n[1], list)])
    for k in range(nleaf):
        for j in (0, 1):
            for val in (0x01, 0x02, 0x04, 0x08, 0x10, 0x20, 0x40, 0x80, 0xff, 0x00):
                for d in (0, 3, -1):
                    tr = tree(b[hl:])
                    leaves = [n for _, n in nodes(tr, []) if not isinstance(n[1], list)]
                    n = leaves[k]
                    raw = n[1]
                    if len(raw) <= j:
                        continue
                    raw = raw[:j] + bytes([val]) + raw[j + 1:]
                    raw = raw + bytes(d) if d > 0 else raw[:max(1, len(raw) + d)]
                    n[1] = raw
                    body = untree(tr)
                    hdr = bytearray(b[:hl])
                    hdr[2:4] = (hl - 4 + len(body)).to_bytes(2, "big")
                    out.append((bytes(hdr) + body).hex())
    # inner length / count fields of leaf IEs (octets 2..7): boundary values, IE length unchanged
    for k in range(nleaf):
        for j in range(2, 8):
            for val in (0xff, 0x80, 0x00, 0x01):
                tr = tree(b[hl:])
                n = [n for _, n in nodes(tr, []) if not isinstance(n[1], list)][k]
                raw = n[1]
                if len(raw) <= j or raw[j] == val:
                    continue
                n[1] = raw[:j] + bytes([val]) + raw[j + 1:]
                out.append((b[:hl] + untree(tr)).hex())
    return out


def has_ohc_spare_bits(hexmsg):
    """signature of the known finding: an Outer Header Creation IE (type 84) whose second description octet has bit 7 or 8 set"""
    b = bytes.fromhex(hexmsg)
    i = 0
    while True:
        i = b.find(b"\x00\x54", i)
        if i < 0 or i + 6 > len(b):
            return False
        ln = int.from_bytes(b[i + 2:i + 4], "big")
        if ln >= 2 and i + 4 + ln <= len(b) and b[i + 5] & 0xc0:
            return True
        i += 1


def reseq(hexmsg, q):
    """give the datagram its own sequence number (otherwise the server rightly treats it as a retransmission)"""
    b = bytearray(bytes.fromhex(hexmsg))
    off = 12 if (len(b) >= 16 and b[0] & 1) else 4
    if len(b) >= off + 3:
        b[off:off + 3] = (q % (1 << 24)).to_bytes(3, "big")
    return bytes(b).hex()


def run(ctx, harness, n_cases, per_case):
    rnd = random.Random(ctx.seed + 7)
    base, log = common.run_harness(ctx, harness, "fuzzbase", "127.0.0.", tag="-base")
    if base is None:
        return {"error": "fuzzbase failed: " + log[-800:]}
    seeds = [base["est"], base["mod"], base["mod"], base["del"], base["asr"], base["hb"], base["srr"]]
    cases = []
    for k in range(n_cases):
        dgs = []
        for _ in range(per_case):
            m = mutate(rnd, rnd.choice(seeds))
            if rnd.random() < 0.15:
                m = mutate(rnd, m)
            if rnd.random() < 0.95:
                m = reseq(m, 1000 + len(dgs) + 1000 * k)
            dgs.append(m)
        cases.append({"driver": "gtp5g" if k % 2 else "modeldp", "datagrams": dgs})
    sysd = [reseq(d, 500000 + i) for i, d in enumerate(systematic(base["est"]) + systematic(base["mod"]))]
    for k in range(0, len(sysd), 400):
        cases.append({"driver": "gtp5g", "datagrams": sysd[k:k + 400]})
        cases.append({"driver": "modeldp", "datagrams": sysd[k:k + 400]})
    # regression corpus first: datagrams that once took the UPF down (each in a case of its own, real driver), plus
    # the Outer-Header-Creation datagrams with spare description bits of this run (fixed: 242a7e8)
    corpus = []
    cp = os.path.join(common.VERIF, "corpus", "C07-fuzz", "datagrams.json")
    if os.path.exists(cp):
        corpus = json.load(open(cp))["datagrams"]
    def crashy(d):          # the variant with three octets after the address is the one that faulted
        b = bytes.fromhex(d)
        i = b.find(b"\x00\x54")
        return 0 if (i >= 0 and int.from_bytes(b[i + 2:i + 4], "big") >= 13) else 1
    ohc = sorted([d for c in cases if c["driver"] == "gtp5g" for d in c["datagrams"] if has_ohc_spare_bits(d)], key=crashy)[:3]
    cases = [{"driver": "gtp5g", "datagrams": [d], "corpus": True} for d in corpus + ohc] + cases
    prog = os.path.join(ctx.workdir, "fuzz-progress.json")
    res, log = common.run_harness(ctx, harness, "fuzz", [{"driver": c["driver"], "datagrams": c["datagrams"]} for c in cases], timeout=3000,
                                  env_extra={"VHARNESS_PROGRESS": prog})
    if res is None:
        # the whole process went down (a panic in a goroutine nobody recovers, an exit): the datagram under way is the input
        where = None
        try:
            where = json.load(open(prog))
        except Exception:  # noqa: BLE001
            pass
        why = [ln for ln in log.splitlines() if ln.startswith(("panic:", "fatal error:", "goroutine ")) or "go-upf/internal" in ln][:12]
        return {"error": "fuzz harness failed: " + log[-1200:], "died_at": where, "cases": cases, "why": why}
    return {"cases": cases, "results": res["cases"]}


def phase(ctx, info, coverage):
    """C07's byte-level half, called from checks/c07.py"""
    n, per = (40, 250) if ctx.tier == "quick" else (2000, 500)
    r = run(ctx, info["harness"], n, per)
    if r.get("error"):
        w = r.get("died_at")
        if w and w["case"] < len(r["cases"]) and w["datagram"] < len(r["cases"][w["case"]]["datagrams"]):
            c = r["cases"][w["case"]]
            ctx.violation({"property": "C07", "what": "the whole process went down while datagram %d of this sequence was being served: %s" % (
                               w["datagram"], "; ".join(r.get("why") or [])[:600]),
                           "mode": "fuzz", "driver": c["driver"], "datagrams_after_valid_prefix": c["datagrams"][:w["datagram"] + 1][-5:],
                           "offending_datagram": c["datagrams"][w["datagram"]]})
        else:
            ctx.violation({"property": "C07", "broken": r["error"]}, no_input=True)
        return
    sent = sum(o["sent"] for o in r["results"])
    coverage["fuzz_datagrams"] = sent
    coverage["fuzz_cases"] = len(r["cases"])
    coverage["evaluations"] = coverage.get("evaluations", 0) + sent
    reported = 0
    for c, o in zip(r["cases"], r["results"]):
        if o["fault_index"] >= 0:
            d = c["datagrams"][o["fault_index"]]
            if reported < 2:
                reported += 1
                ctx.violation({"property": "C07", "what": "the UPF went down (%s) after datagram %d of this sequence" % (o["fault"], o["fault_index"]),
                               "mode": "fuzz", "driver": c["driver"], "datagrams_after_valid_prefix": c["datagrams"][:o["fault_index"] + 1][-5:],
                               "offending_datagram": d})
        elif o["fault"]:
            ctx.violation({"property": "C07", "broken": "fuzz case did not run: " + o["fault"]}, no_input=True)
        elif o["ref_changed"] and reported < 2:
            reported += 1
            ctx.violation({"property": "C07", "what": "a session of another node, which none of the datagrams addresses, changed", "mode": "fuzz",
                           "driver": c["driver"], "datagrams": c["datagrams"][:50]})
