"""C04 - see MANIFEST below and DESIGN.md section 4/C04."""
from checks import pfcp_common as pc

MANIFEST = dict(
    text="Kernel-checked for ALL histories (fold over arbitrary event lists, all oracles): the run never faults and the session table invariant holds (free list = released slots, duplicate-free; slot i holds SEID i+1, so live SEIDs are non-zero and unique); the look-up is exact for every SEID value (found iff live, else not found, never a fault); allocation returns a fresh non-zero SEID and leaves all others resolving as before; requests for a non-live SEID yield cause 65 / header SEID 0 and change nothing; a released SEID has no rule left in the data plane. Tie: the Coq model's step function is run (vm_compute) against the real PfcpServer over UDP loopback on generated histories incl. SEIDs 0, released, beyond the table, 2^63.., 2^64-1, and the statements are evaluated as monitors on the implementation's trace.",
    note='Peers of the differential run include alias sockets (a second control-plane node behind one IP address, other source port); monitor rule: a live SEID stops resolving only at an event that ends its session (Deletion addressed to it, re-association, SEID-0 answer to the report that was about it). ',
    technique='Coq invariant proof over all histories + differential run of the model vs the real server + trace monitors',
    design='4/C04')

RULE = 'histories of 10-30 events over 3 peers / node ids, id pools of 3, SEID classes 0/live/released/beyond/2^63../2^64-1; distinct = distinct event lists, non-trivial = contains an establishment, modification or deletion'

GEN = dict(weights=dict(est=20, dele=14, asr=8, srr=8, usa=8), big_seids=True, p_panic=0.15, p_alias=0.08)
N_QUICK, N_THOROUGH = 120, 3000


def run(ctx, replay=None):
    return pc.run_property(ctx, "C04", pc.mon_c04, GEN, N_QUICK, N_THOROUGH, replay=replay, rule=RULE,
                           assumptions=[pc.PFCP_NOTE], directed=pc.directed_c04)
