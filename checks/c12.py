"""C12 - see MANIFEST below."""
from checks import pfcp_common as pc

MANIFEST = dict(
    text='Kernel-checked: the reference-count invariant (count = number of PDRs whose URR list names the URR) is preserved by every per-session operation, by emit, by Close and by run_categories for the generated handler orders, under the stated well-formedness (Create PDR ids fresh, < 65536 PDRs); dissociation from the last PDR issues exactly one query and returns its usage marked TERMR, from a shared URR nothing; Remove URR returns the usage marked TERMR, Query URR marked IMMER; the Deletion Response marks every report TERMR and carries at most one per URR. PARTIAL: Create PDR naming an id the session still holds corrupts the count (refuted lemma; finding sig=create-pdr-existing-id). Tie: differential run + state invariant monitor + exact expectation monitor.',
    note='Partial: duplicate Create PDR id is a recorded finding; no unconditional world-level theorem because of it. ',
    technique="Coq lemmas on the emission / queue / reference-count functions + differential run + trace monitor",
    design='4/C12')

RULE = 'Create/Update/Remove PDR with arbitrary URR lists, URRs shared by PDRs, associations added by Update PDR, Create/Remove/Query URR, deletion; monitor: refcount = #PDRs naming the URR in every state, exact final-report expectation for requests that only remove / re-point PDRs, TERMR / IMMER marks'
GEN = dict(usage_share=0.6, weights=dict(mod=36, est=16, dele=8, asr=4, usa=6), idpool=(1, 2, 3, 4, 5, 6), p_fail=0.1, big_seids=False)
N_QUICK, N_THOROUGH = 110, 3000


def run(ctx, replay=None):
    return pc.run_property(ctx, "C12", pc.mon_c12, GEN, N_QUICK, N_THOROUGH, replay=replay, rule=RULE,
                           assumptions=[pc.PFCP_NOTE], finding_sig=pc.sig_c12, directed=pc.directed_c12)
