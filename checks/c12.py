"""C12 - see MANIFEST below."""
from checks import pfcp_common as pc
from checks import rmfail_phase

MANIFEST = dict(
    text='Kernel-checked: the reference-count invariant (count = number of PDRs whose URR list names the URR) is preserved by every per-session operation, by emit, by Close and by run_categories for the generated handler orders, for ANY Create PDR ids - fresh, naming PDRs the session holds, repeated in one request - as long as the session has fewer than 65536 PDRs (C12_modification_keeps_refcounts_any_ids, C12_create_pdr); dissociation from the last PDR issues exactly one query and returns its usage marked TERMR, from a shared URR nothing; Remove URR returns the usage marked TERMR, Query URR marked IMMER; the Deletion Response marks every report TERMR and carries at most one per URR. A Create PDR naming a PDR the session still holds REPLACES its associations the way Update PDR does, and the previous bookkeeping is put back when the data plane rejects the duplicate (the former finding create-pdr-existing-id is fixed; its history is a regression case, C12_create_pdr_existing_id_exact). Tie: differential run + state invariant monitor + exact expectation monitor.',
    note='The world-level statement needs the uint16 counter not to wrap: fewer than 65536 PDRs per session (explicit hypothesis). A further monitor-only phase (rmfail_phase): a Remove PDR the data plane refuses leaves the PDR referring to its URRs; when the last referrer is finally removed the termination report comes back in that response. ',
    technique="Coq lemmas on the emission / queue / reference-count functions + differential run + trace monitor",
    design='4/C12')

RULE = 'Create/Update/Remove PDR with arbitrary URR lists, URRs shared by PDRs, associations added by Update PDR, Create/Remove/Query URR, deletion; monitor: refcount = #PDRs naming the URR in every state, exact final-report expectation for requests that only remove / re-point PDRs, TERMR / IMMER marks'
GEN = dict(usage_share=0.6, weights=dict(mod=36, est=16, dele=8, asr=4, usa=6), idpool=(1, 2, 3, 4, 5, 6), p_fail=0.1, big_seids=False)
N_QUICK, N_THOROUGH = 110, 3000


def run(ctx, replay=None):
    return pc.run_property(ctx, "C12", pc.mon_c12, GEN, N_QUICK, N_THOROUGH, replay=replay, rule=RULE,
                           assumptions=[pc.PFCP_NOTE], finding_sig=pc.sig_c12, directed=pc.directed_c12, extra_phase=rmfail_phase.phase("C12"))
