"""Shared machinery of every check: scratch build of /repo (+ overlay), T-gen, Coq build,
evaluation of cases inside Coq (vm_compute), verdict protocol, evidence files."""
import fcntl
import hashlib
import json
import os
import re
import shutil
import subprocess
import sys
import time

VERIF = os.path.dirname(os.path.dirname(os.path.abspath(__file__)))
REPO = os.environ.get("VERIF_REPO", "/repo")
# evidence/ is only ever written from runs against /repo itself; runs against a scratch copy (seeded changes) go elsewhere
EVIDENCE_DIR = "evidence" if os.path.realpath(REPO) == "/repo" else "evidence-scratch"
COQ = os.path.join(VERIF, "coq")
BUILD = os.path.join(VERIF, "build")
OVERLAY = os.path.join(VERIF, "harness", "overlay")
SCRATCH_ROOT = "/var/tmp"

GOENV = dict(os.environ, GOFLAGS="-mod=mod", GOPROXY="off", GOSUMDB="off", GOTOOLCHAIN="local",
             CGO_ENABLED=os.environ.get("CGO_ENABLED", "0"))


class TreeBroken(Exception):
    """/repo does not compile: no verdict."""


class TieBroken(Exception):
    """/repo compiles but the overlay/translator no longer fits it."""


def sh(cmd, timeout=600, cwd=None, env=None, input=None):
    p = subprocess.run(cmd, shell=isinstance(cmd, str), cwd=cwd, env=env, input=input,
                       stdout=subprocess.PIPE, stderr=subprocess.STDOUT, timeout=timeout, text=True)
    return p.returncode, p.stdout


class Lock:
    def __init__(self, name):
        os.makedirs(BUILD, exist_ok=True)
        self.path = os.path.join(BUILD, name)

    def __enter__(self):
        self.f = open(self.path, "w")
        fcntl.flock(self.f, fcntl.LOCK_EX)
        return self

    def __exit__(self, *a):
        fcntl.flock(self.f, fcntl.LOCK_UN)
        self.f.close()


# ---------------------------------------------------------------- hashing / caching

def _hash_tree(root, exts=None, exclude=(".git",)):
    h = hashlib.sha256()
    for d, dirs, files in os.walk(root):
        dirs[:] = sorted(x for x in dirs if x not in exclude)
        for f in sorted(files):
            if exts and not f.endswith(exts):
                continue
            p = os.path.join(d, f)
            try:
                with open(p, "rb") as fh:
                    data = fh.read()
            except OSError:
                continue
            h.update(os.path.relpath(p, root).encode())
            h.update(b"\0")
            h.update(data)
            h.update(b"\0")
    return h.hexdigest()


def repo_hash():
    return _hash_tree(REPO, exts=(".go", ".mod", ".sum"))


def overlay_hash():
    return _hash_tree(OVERLAY)


# ---------------------------------------------------------------- builds

def ensure_gen_tool():
    src = os.path.join(VERIF, "tools", "gen")
    out = os.path.join(BUILD, "gen")
    stamp = out + ".hash"
    h = _hash_tree(src)
    if os.path.exists(out) and os.path.exists(stamp) and open(stamp).read() == h:
        return out
    with Lock(".gen.lock"):
        rc, log = sh(["go", "build", "-o", out, "."], cwd=src, env=GOENV, timeout=300)
        if rc != 0:
            raise RuntimeError("cannot build tools/gen:\n" + log)
        open(stamp, "w").write(h)
    return out


def run_gen():
    """T-gen: regenerate coq/gen/*.v from /repo's working tree.  Returns (ok, log)."""
    tool = ensure_gen_tool()
    rc, log = sh([tool, REPO, os.path.join(COQ, "gen")], timeout=120)
    if rc not in (0, 3):
        log = "GEN-FATAL (exit %d) " % rc + log
    return rc == 0, log


def build_harness(race=False):
    """rsync /repo's working tree to a scratch dir, check that it builds, add the overlay,
    build vharness with -tags verif.  Cached by content hash of tree + overlay."""
    key = hashlib.sha256((repo_hash() + overlay_hash() + ("race" if race else "")).encode()).hexdigest()[:20]
    outdir = os.path.join(BUILD, "h-" + key)
    binp = os.path.join(outdir, "vharness")
    marker = os.path.join(outdir, "status.json")
    with Lock(".harness.lock"):
        if os.path.exists(marker):
            st = json.load(open(marker))
        else:
            st = _build_harness_uncached(outdir, binp, race)
            os.makedirs(outdir, exist_ok=True)
            json.dump(st, open(marker, "w"))
            _prune_harness_cache(keep=outdir)
    if st["status"] == "tree_broken":
        raise TreeBroken(st["log"])
    if st["status"] == "tie_broken":
        raise TieBroken(st["log"])
    return binp


def _prune_harness_cache(keep, maxn=6):
    ds = [os.path.join(BUILD, d) for d in os.listdir(BUILD) if d.startswith("h-")]
    ds.sort(key=lambda p: os.path.getmtime(p))
    for d in ds[:-maxn]:
        if d != keep:
            shutil.rmtree(d, ignore_errors=True)


def _build_harness_uncached(outdir, binp, race):
    scratch = os.path.join(SCRATCH_ROOT, "verif-scratch-%d" % os.getpid())
    shutil.rmtree(scratch, ignore_errors=True)
    try:
        rc, log = sh(["rsync", "-a", "--exclude", ".git", REPO + "/", scratch + "/"], timeout=120)
        if rc != 0:
            raise RuntimeError("rsync failed: " + log)
        rc, log = sh(["go", "build", "./..."], cwd=scratch, env=GOENV, timeout=900)
        if rc != 0:
            return {"status": "tree_broken", "log": log[-4000:]}
        rc, log = sh(["rsync", "-a", OVERLAY + "/", scratch + "/"], timeout=60)
        if rc != 0:
            raise RuntimeError("overlay rsync failed: " + log)
        os.makedirs(outdir, exist_ok=True)
        env = dict(GOENV)
        cmd = ["go", "build", "-tags", "verif", "-o", binp]
        if race:
            cmd.insert(2, "-race")
            env["CGO_ENABLED"] = "1"
        cmd.append("./cmd/vharness")
        rc, log = sh(cmd, cwd=scratch, env=env, timeout=1200)
        if rc != 0:
            return {"status": "tie_broken", "log": log[-4000:]}
        return {"status": "ok", "log": ""}
    finally:
        shutil.rmtree(scratch, ignore_errors=True)


def coq_project_files():
    files = []
    for sub in ("base", "gen", "monitor", "model", "proofs", "props"):
        d = os.path.join(COQ, sub)
        if os.path.isdir(d):
            for f in sorted(os.listdir(d)):
                if f.endswith(".v"):
                    files.append(sub + "/" + f)
    return files


def coq_make(timeout=3000):
    """Full (.vo) build of the Coq project with -k; returns (all_ok, log)."""
    with Lock(".coq.lock"):
        files = coq_project_files()
        proj = "-Q . GoUpf\n" + "\n".join(files) + "\n"
        pp = os.path.join(COQ, "_CoqProject")
        if not os.path.exists(pp) or open(pp).read() != proj:
            open(pp, "w").write(proj)
        mk = os.path.join(COQ, "Makefile.coq")
        if not os.path.exists(mk) or os.path.getmtime(mk) < os.path.getmtime(pp):
            rc, log = sh(["coq_makefile", "-f", "_CoqProject", "-o", "Makefile.coq"], cwd=COQ, timeout=120)
            if rc != 0:
                return False, log
        rc, log = sh("timeout %d make -f Makefile.coq -k -j16 2>&1" % timeout, cwd=COQ, timeout=timeout + 60)
        return rc == 0, log


def vo_ok(rel):
    """rel like 'props/C14.v': compiled and up to date w.r.t. its own source."""
    v = os.path.join(COQ, rel)
    vo = v + "o"
    return os.path.exists(vo) and os.path.getmtime(vo) >= os.path.getmtime(v)


THEOREM_RE = re.compile(r"^\s*(Theorem|Example)\s+([A-Za-z0-9_']+)", re.M)


def prop_obligations(prop):
    """Theorems stated in props/<prop>.v, whether the file compiled, Print Assumptions output."""
    rel = "props/%s.v" % prop
    src = open(os.path.join(COQ, rel)).read()
    names = [m.group(2) for m in THEOREM_RE.finditer(src) if m.group(1) == "Theorem"]
    examples = [m.group(2) for m in THEOREM_RE.finditer(src) if m.group(1) == "Example"]
    ok = vo_ok(rel)
    axioms = {}
    out = ""
    if ok:
        tmpd = os.path.join(BUILD, "tmp-%s-%d" % (prop, os.getpid()))
        os.makedirs(tmpd, exist_ok=True)
        rc, out = sh(["coqc", "-Q", ".", "GoUpf", "-o", os.path.join(tmpd, prop + ".vo"), rel], cwd=COQ, timeout=600)
        shutil.rmtree(tmpd, ignore_errors=True)
        if rc != 0:
            ok = False
        else:
            chunks = re.split(r"(?=Closed under the global context|Axioms:)", out)
            chunks = [c for c in chunks if c.startswith("Closed") or c.startswith("Axioms:")]
            for n, c in zip(names, chunks):
                axioms[n] = "none (closed under the global context)" if c.startswith("Closed") else " ".join(c.split())
    return {"file": rel, "theorems": names, "examples": examples, "compiled": ok, "axioms": axioms, "log": out[-3000:]}


def forbidden_constructs():
    """grep for Admitted/Axiom/... in the development (must be empty)."""
    bad = []
    pat = re.compile(r"\b(Admitted|admit|Axiom|Parameter|Conjecture|Admit Obligations|bypass_check|type-in-type|impredicative-set)\b|Unset Guard|Unset Positivity|Unset Universe")
    for rel in coq_project_files():
        if rel.startswith("gen/"):
            continue
        txt = open(os.path.join(COQ, rel)).read()
        txt = re.sub(r"\(\*.*?\*\)", "", txt, flags=re.S)
        for i, line in enumerate(txt.split("\n")):
            if pat.search(line):
                bad.append("%s:%d:%s" % (rel, i + 1, line.strip()))
    return bad


# ---------------------------------------------------------------- Coq terms

def cN(n):
    return str(int(n))


def cnat(n):
    return "%d%%nat" % int(n)


def cbool(b):
    return "true" if b else "false"


def cstr(s):
    return '"' + s.replace('"', '""') + '"%string'


def clist(items):
    return "[" + "; ".join(items) + "]"


def copt(x):
    return "None" if x is None else "(Some %s)" % x


def cbytes_hex(h):
    return clist([str(b) for b in bytes.fromhex(h)])


PRINT_RE = re.compile(r"^(\w+) =\s*(.*?)\s*:\s*[^:=]*?$", re.S)


def run_coq_cases(ctx, name, body, requires, prints, timeout=1800):
    """Write a cases file, compile it (vm_compute happens inside), return {ident: printed term}."""
    d = ctx.workdir
    path = os.path.join(d, name + ".v")
    txt = "From Coq Require Import List NArith ZArith Bool String.\nImport ListNotations.\n"
    txt += "From GoUpf Require Import %s.\nLocal Open Scope N_scope.\n" % " ".join(requires)
    txt += body + "\n"
    for p in prints:
        txt += "Print %s.\n" % p
    open(path, "w").write(txt)
    rc, out = sh("ulimit -s unlimited 2>/dev/null; timeout %d coqc -Q %s GoUpf %s" % (timeout, COQ, path), cwd=d, timeout=timeout + 30)
    if rc != 0:
        return None, out
    res = {}
    # split output at "ident = "
    pieces = re.split(r"^(?=\w+ =)", out, flags=re.M)
    for pc in pieces:
        m = re.match(r"^(\w+) =\s*(.*)$", pc, re.S)
        if not m:
            continue
        ident, rest = m.group(1), m.group(2)
        # drop trailing ": type"
        k = rest.rfind("\n     : ")
        if k < 0:
            k = rest.rfind(": ")
        term = rest[:k] if k >= 0 else rest
        res[ident] = " ".join(term.split())
    return res, out


def parse_N_list(term):
    return [int(x) for x in re.findall(r"\d+", term)]


# ---------------------------------------------------------------- known findings

def known_findings(prop):
    path = os.path.join(VERIF, "known_findings.txt")
    res = []
    if os.path.exists(path):
        for line in open(path):
            line = line.strip()
            if line.startswith("finding:"):
                m = re.match(r"finding:\s+property=(\S+)\s+sig=(\S+)\s+(.*)", line)
                if m and m.group(1) == prop:
                    res.append({"sig": m.group(2), "what": m.group(3)})
    return res


# ---------------------------------------------------------------- context / verdict

class Ctx:
    def __init__(self, prop, tier, seed):
        self.prop, self.tier, self.seed = prop, tier, seed
        self.t0 = time.time()
        self.workdir = os.path.join(BUILD, "run-%s-%d" % (prop, os.getpid()))
        shutil.rmtree(self.workdir, ignore_errors=True)
        os.makedirs(self.workdir)
        os.makedirs(os.path.join(VERIF, "replays"), exist_ok=True)
        os.makedirs(os.path.join(VERIF, EVIDENCE_DIR), exist_ok=True)
        self.violations = []        # (replay path, suffix)
        self.known_hits = []
        self.notes = []
        self.nreplay = 0

    def replay_path(self):
        self.nreplay += 1
        return os.path.join(VERIF, "replays", "%s-%d-%d.json" % (self.prop, self.seed, self.nreplay))

    def violation(self, replay_obj, no_input=False):
        p = self.replay_path()
        json.dump(replay_obj, open(p, "w"), indent=1, default=str)
        self.violations.append((p, no_input))

    def known(self, what):
        if what not in self.known_hits:
            self.known_hits.append(what)

    def cleanup(self):
        shutil.rmtree(self.workdir, ignore_errors=True)

    def coqchk(self, coverage):
        """thorough tier: the independent checker re-checks the compiled property file and everything it depends on,
        and prints the axioms / unsafe features the whole closure relies on"""
        vo = os.path.join(COQ, "props", self.prop + ".vo")
        if not os.path.exists(vo):
            return
        with Lock(".coq.lock"):
            try:
                rc, out = sh("timeout 3000 coqchk -silent -o -Q . GoUpf GoUpf.props.%s" % self.prop, cwd=COQ, timeout=3100)
            except subprocess.TimeoutExpired:
                rc, out = -9, "coqchk timed out"
        summ = {}
        for key, pat in (("axioms", r"\* Axioms:(.*?)\n\s*\n"), ("type_in_type", r"type-in-type:(.*?)\n\s*\n"),
                         ("unsafe_fixpoints", r"unsafe \(co\)fixpoints:(.*?)\n\s*\n"), ("assumed_positivity", r"positivity is assumed:(.*?)\n\s*\n")):
            m = re.search(pat, out + "\n\n", re.S)
            summ[key] = " ".join(m.group(1).split()) if m else "?"
        summ["rc"] = rc
        coverage["coqchk"] = summ
        if rc != 0 or any(summ[k] != "<none>" for k in ("axioms", "type_in_type", "unsafe_fixpoints", "assumed_positivity")):
            self.violation({"property": self.prop, "broken": "coqchk does not accept props/%s.vo and its dependencies as axiom-free: %s"
                            % (self.prop, summ), "log": out[-1500:]}, no_input=True)

    def finish(self, coverage, assumptions):
        if self.tier == "thorough" and EVIDENCE_DIR == "evidence":
            self.coqchk(coverage)
        for w in self.known_hits:
            print("KNOWN-FINDING: property=%s %s" % (self.prop, w))
        for p, no_input in self.violations:
            print("VIOLATION property=%s replay=%s%s" % (self.prop, p, " no-failing-input-found" if no_input else ""))
        ev = {
            "property_id": self.prop, "tier": self.tier, "seed": self.seed, "level": "proof",
            "coverage": coverage, "assumptions": assumptions,
            "wall_s": round(time.time() - self.t0, 2), "violations": len(self.violations),
        }
        json.dump(ev, open(os.path.join(VERIF, EVIDENCE_DIR, self.prop + ".json"), "w"), indent=1, default=str)
        self.cleanup()
        sys.stdout.flush()
        return 1 if self.violations else 0


TRUSTED_BASE = [
    "Coq 8.16.1 kernel incl. the vm_compute machine (no native_compute)",
    "tools/gen (T-gen translator, unverified, fails closed)",
    "correspondence harness (harness/overlay, -tags verif) and lib/*.py (case generation, Coq term printing, comparison)",
    "Go toolchain, go-pfcp/go-nl/go-gtp5gnl/govalidator/yaml as libraries (modelled, not verified)",
]


def prepare(ctx, need_harness=True, race=False):
    """Steps 1-2 of the decision protocol. Returns dict with harness path, obligations, flags."""
    info = {"harness": None, "tie_broken": None, "gen_ok": True, "gen_log": "", "make_ok": True}
    if need_harness:
        try:
            info["harness"] = build_harness(race=race)
        except TreeBroken as e:
            print("tree does not compile; no verdict\n" + str(e)[-2000:])
            ctx.cleanup()
            sys.exit(2)
        except TieBroken as e:
            info["tie_broken"] = str(e)
    gok, glog = run_gen()
    ok, log = coq_make()
    info["make_ok"], info["make_log"] = ok, log[-6000:]
    info["obl"] = prop_obligations(ctx.prop)
    # the generators are independent: one that no longer recognises its part of the source leaves a file that does not
    # compile, so it concerns this property exactly when the property's theorems (or, later, its cases file) no longer
    # compile; a failure of the tool itself concerns every property
    info["gen_ok"] = gok or (info["obl"]["compiled"] and not glog.startswith("GEN-FATAL"))
    info["gen_log"] = glog
    info["gen_failed_elsewhere"] = (not gok) and info["gen_ok"]
    info["forbidden"] = forbidden_constructs()
    return info


def run_harness(ctx, harness, mode, cases, timeout=1200, tag="", env_extra=None):
    inp = os.path.join(ctx.workdir, "in-%s%s.json" % (mode, tag))
    outp = os.path.join(ctx.workdir, "out-%s%s.json" % (mode, tag))
    json.dump(cases, open(inp, "w"))
    try:
        rc, log = sh([harness, mode, inp, outp], timeout=timeout, env=dict(GOENV, **(env_extra or {})))
    except subprocess.TimeoutExpired:
        return None, "harness process (mode %s) did not finish within %d s: the code under test hangs" % (mode, timeout)
    if rc != 0 or not os.path.exists(outp):
        return None, log
    return json.load(open(outp)), log
