"""PFCP-layer correspondence: history generator, harness JSON <-> Coq terms, comparison driver.
Shared by the checks of C01 C04 C05 C06 C07 C08 C09 C10 C11 C12 C13."""
import hashlib
import json
import os
import random
import re

from lib import common
from lib.common import cN, clist, cbool

REQUIRES = ["Bytes", "FlagsGen", "ConstsGen", "HandlerGen", "Pfcp", "PfcpCmp"]

KINDS = {"pdr": "KPDR", "far": "KFAR", "qer": "KQER", "urr": "KURR", "bar": "KBAR"}
OPS = {"create": "DCreate", "update": "DUpdate", "remove": "DRemove", "query": "DQuery"}
OTHER_REQ = [3, 7, 9, 12, 56]
OTHER_RSP = [2, 6, 51, 53]

SEID_POOL = [0, 1, 2, 3, 4, 5, 7, 2**32, 2**63 - 1, 2**63, 2**63 + 1, 2**63 + 2, 2**64 - 2, 2**64 - 1]


# ---------------------------------------------------------------- generator

class Gen:
    """Structured, mostly-valid histories; collision-heavy id pools; every choice from one PRNG."""

    def __init__(self, rnd, weights=None, npeers=3, idpool=(1, 2, 3), maxlen=30, p_fail=0.15, big_seids=True,
                 txseq0_choices=(0, 5, 2**24 - 2, 2**24 - 1), maxretrans_choices=(0, 1, 2, 3), p_panic=0.0, p_alias=0.0, p_wfail=0.0, p_wfail_recv=0.0):
        self.r = rnd
        self.w = dict(asr=6, est=14, mod=22, dele=8, hb=3, dup=8, usa=8, dld=5, timeout=8, srr=6, otherreq=2, otherrsp=2)
        if weights:
            self.w.update(weights)
        self.npeers, self.idpool, self.maxlen, self.p_fail = npeers, list(idpool), maxlen, p_fail
        self.big_seids = big_seids
        self.txseq0_choices, self.maxretrans_choices = txseq0_choices, maxretrans_choices
        self.p_wfail_recv = p_wfail_recv      # share of received datagrams handled while every write fails (the response is lost)
        self.p_wfail = p_wfail      # share of single-item reports served while every write on the PFCP socket fails
        self.p_alias = p_alias      # share of requests sent from the alias socket of a peer (same IP address, port 9805)
        self.p_panic = p_panic      # share of est/mod requests during which one driver call panics (contained: fix 242a7e8)

    def ids(self, kmax=2, none_p=0.04):
        n = self.r.choice([0, 0, 1, 1, 1, 2, kmax])
        return [None if self.r.random() < none_p else self.r.choice(self.idpool) for _ in range(n)]

    def urr_ops(self):
        out = []
        for i in self.ids():
            out.append({"id": i, "method": self.r.choice([None, 1, 2, 3, 6, 7]), "info": self.r.choice([None, 0, 16, 0x1f])})
        return out

    def pdr_ops(self, create):
        out = []
        for i in self.ids():
            k = self.r.choice([0, 0, 1, 1, 2, 3])
            urrs = [self.r.choice(self.idpool) for _ in range(k)]
            out.append({"id": i, "urrs": urrs, "ueip": create and self.r.random() < 0.5})
        return out

    def ops(self, est):
        r = self.r
        o = {"cFAR": self.ids(), "cQER": self.ids(), "cURR": self.urr_ops(), "cBAR": self.ids(1)[:1],
             "cPDR": self.pdr_ops(True)}
        if not est:
            def maybe(x):
                return x if r.random() < 0.45 else []
            o = {k: maybe(v) for k, v in o.items()}
            o.update({"rFAR": maybe(self.ids()), "rQER": maybe(self.ids()), "rURR": maybe(self.ids()),
                      "rBAR": maybe(self.ids(1)[:1]), "rPDR": maybe(self.ids()),
                      "uFAR": maybe(self.ids()), "uQER": maybe(self.ids()), "uURR": maybe(self.urr_ops()),
                      "uBAR": maybe(self.ids(1)[:1]), "uPDR": maybe(self.pdr_ops(False)), "qURR": maybe(self.ids())})
        for k in list(o):
            if k.endswith("BAR"):
                o[k] = [x if x is None else x % 256 for x in o[k]]
        return o

    def rpt(self, urr):
        r = self.r
        big = [0, 1, 2**32, 2**63, 2**64 - 1, r.randrange(2**64), r.randrange(1000)]
        return {"urr": urr, "trig": r.choice([0, 1, 2, 4, 16, 32, 256, 1 << 14, 3, r.randrange(1 << 22)]),
                "vflags": r.choice([0, 0, 0, 1, 8, 0x3f]), "cnt": [r.choice(big) for _ in range(6)],
                "dur": r.choice([0, 1, 3600]), "start": r.randrange(1, 10**9), "end": r.randrange(1, 10**9)}

    def env(self, ev):
        r = self.r
        fail, usage = [], []
        for op in ("create", "update", "query"):
            for kind in (("pdr", "far", "qer", "urr", "bar") if op != "query" else ("urr",)):
                for i in self.idpool:
                    if r.random() < self.p_fail / 3:
                        fail.append({"op": op, "kind": kind, "id": i})
                        if op == "create" and r.random() < 0.4:
                            # the failing installation leaves the rule behind (residue marker, see ModelDP.call / dp_call)
                            fail.append({"op": "remove", "kind": kind, "id": i})
        for op in ("update", "remove", "query"):
            for i in self.idpool:
                if r.random() < 0.6:
                    n = r.choice([1, 1, 1, 0, 2, 3])
                    # a report labelled with ANOTHER URR's id is only scripted where the handler's call order is fixed by the
                    # message (IE order); Sess.Close (deletion, re-association) removes URRs in Go's map order, which would
                    # make "which of two reports for one URR comes first" depend on the run
                    mops = ev.get("msg", {}).get("ops") or {}
                    exact = (op == "remove" and ev.get("msg", {}).get("k") in ("del", "asr")) or \
                            (op == "query" and (mops.get("rPDR") or mops.get("uPDR")))     # a PDR's URR set is a Go map too
                    rp = [self.rpt(i if (exact or r.random() < 0.93) else r.choice(self.idpool)) for _ in range(n)]
                    usage.append({"op": op, "id": i, "rpts": rp})
        ev["fail"], ev["usage"] = fail, usage
        if self.p_panic and ev.get("msg", {}).get("k") == "del" and r.random() < self.p_panic:
            # a removal call of Sess.Close panics: the deletion is aborted half-way (Close iterates Go maps, so WHICH rules
            # went before the panic is not determined: the model comparison of such a history stops here, the monitors go on)
            ev["panic"] = {"op": "remove", "kind": r.choice(["far", "qer", "urr", "bar", "pdr"]), "id": r.choice(self.idpool)}
        if self.p_panic and ev.get("msg", {}).get("k") in ("est", "mod") and r.random() < self.p_panic:
            ops = ev["msg"].get("ops") or {}
            cands = []
            for key in ("cFAR", "cQER", "cURR", "cBAR", "cPDR", "uFAR", "uQER", "uURR", "uBAR", "uPDR"):
                ids_ = [(x.get("id") if isinstance(x, dict) else x) for x in (ops.get(key) or [])]
                for i in ids_:
                    if i is not None and ids_.count(i) == 1:
                        cands.append({"op": "create" if key[0] == "c" else "update", "kind": key[1:].lower(), "id": i})
            if cands:
                t = r.choice(cands)
                ev["panic"] = t
                # the model sees the panicking call as a failed call (nothing reaches the data plane), then the abort
                if t not in fail:
                    fail.append(dict(t))
                # the panic happens before anything reaches the data plane: no residue for that call
                fail[:] = [f for f in fail if not (f["op"] == "remove" and f["kind"] == t["kind"] and f["id"] == t["id"])]

    def ieval(self, pool, absent_p=0.04, bad_p=0.04):
        x = self.r.random()
        if x < absent_p:
            return {"absent": True}
        if x < absent_p + bad_p:
            return {"bad": True}
        return {"v": self.r.choice(pool)}

    def history(self):
        r = self.r
        n = r.randint(max(3, self.maxlen // 3), self.maxlen)
        evs = []
        seqs = [r.randrange(1, 50) for _ in range(self.npeers)]
        seqs += [0] * (8 - len(seqs))
        nsess = 0
        nodes = list(range(self.npeers))
        sent = []          # previous recv events (for duplicates)
        txseq0 = r.choice(self.txseq0_choices)
        nreq = 0           # upper bound of UPF-initiated requests so far
        owner = {}         # guessed UP SEID -> node id that established it
        outstanding = []   # guessed (destination peer, sequence number) of UPF-initiated requests
        guess = [txseq0, 0]   # next sequence number, sessions established so far

        def note_requests(sd, items):
            if sd in owner:
                for it in items:
                    if it.get("dld") and (it["dld"]["action"] & 8):
                        outstanding.append((owner[sd], guess[0] % 2**24))
                        guess[0] += 1
                if any(it.get("usa") for it in items) and all((not it.get("dld")) or (it["dld"]["action"] & 8) for it in items):
                    outstanding.append((owner[sd], guess[0] % 2**24))
                    guess[0] += 1
        kinds = list(self.w)
        wts = [self.w[k] for k in kinds]

        def seid():
            live = list(range(1, nsess + 2))
            if self.big_seids and r.random() < 0.12:
                return r.choice(SEID_POOL)
            return r.choice(live + [0]) if live else 0

        def recv(peer, msg, with_env=True):
            if self.p_alias and r.random() < self.p_alias:
                # the same control-plane host, another source port: another peer as far as PFCP is concerned. Half of them
                # re-use the sequence number the host's main socket used last (never a retransmission)
                seqs[peer + 4] = seqs[peer] - 1 if r.random() < 0.5 else seqs[peer + 4]
                peer += 4
            seqs[peer] += 1
            ev = {"t": "recv", "peer": peer, "seq": seqs[peer], "msg": msg}
            if self.p_wfail_recv and r.random() < self.p_wfail_recv:
                ev["wfail"] = True          # handled while the socket's writes fail: the response is lost inside the UPF
            if with_env:
                self.env(ev)
            sent.append(ev)
            return ev

        # most histories start with an association
        if r.random() < 0.9:
            p = r.randrange(self.npeers)
            evs.append(recv(p, {"k": "asr", "nid": {"v": p}}))
        while len(evs) < n:
            k = r.choices(kinds, wts)[0]
            p = r.randrange(self.npeers)
            if k == "asr":
                evs.append(recv(p, {"k": "asr", "nid": self.ieval(nodes if r.random() < 0.3 else [p])}))
            elif k == "est":
                evs.append(recv(p, {"k": "est", "nid": self.ieval([p] if r.random() < 0.8 else nodes),
                                    "fseid": self.ieval([10, 10, 11, 77, 2**64 - 1]), "ops": self.ops(True)}))
                nsess += 1
                m_ = evs[-1]["msg"]
                if m_["nid"].get("v") is not None and m_["fseid"].get("v") is not None:
                    guess[1] += 1
                    owner[guess[1]] = m_["nid"]["v"]
            elif k == "mod":
                nid = {"absent": True} if r.random() < 0.85 else self.ieval(nodes, 0.0, 0.15)
                evs.append(recv(p, {"k": "mod", "seid": seid(), "nid": nid, "ops": self.ops(False)}))
            elif k == "dele":
                evs.append(recv(p, {"k": "del", "seid": seid()}))
            elif k == "hb":
                evs.append(recv(p, {"k": "hb"}, with_env=False))
            elif k == "dup" and sent:
                evs.append(dict(r.choice(sent[-6:])))
                evs[-1].pop("wfail", None)
                if self.p_wfail_recv and r.random() < self.p_wfail_recv:
                    evs[-1]["wfail"] = True
                if self.p_alias and r.random() < self.p_alias:
                    evs[-1]["peer"] = (evs[-1]["peer"] + 4) % 8      # same bytes from the other port: a first copy
            elif k == "usa":
                ev = {"t": "report", "seid": seid(),
                      "items": [{"usa": self.rpt(r.choice(self.idpool))} for _ in range(r.choice([1, 1, 2, 3]))]}
                if self.p_wfail and len(ev["items"]) == 1 and r.random() < self.p_wfail:
                    ev["wfail"] = True
                evs.append(ev)
                note_requests(ev["seid"], ev["items"])
                nreq += 1
            elif k == "dld":
                items = []
                for _ in range(r.choice([1, 1, 2])):
                    items.append({"dld": {"pdr": r.choice(self.idpool), "action": r.choice([4, 12, 12, 8, 2, 0, 0x0c0c]),
                                          "pkt": bytes(r.randrange(256) for _ in range(r.choice([0, 1, 3, 8]))).hex()}})
                if r.random() < 0.15:
                    items.append({"usa": self.rpt(r.choice(self.idpool))})
                evs.append({"t": "report", "seid": seid(), "items": items})
                if self.p_wfail and len(items) == 1 and r.random() < self.p_wfail:
                    evs[-1]["wfail"] = True
                note_requests(evs[-1]["seid"], items)
                nreq += len(items)
            elif k == "timeout":
                if outstanding and r.random() < 0.6:
                    d_, q_ = r.choice(outstanding)
                    evs.append({"t": "timeout", "tx": True, "peer": d_, "seq": q_})
                    if self.p_wfail and r.random() < self.p_wfail:
                        evs[-1]["wfail"] = True
                elif r.random() < 0.5:
                    evs.append({"t": "timeout", "tx": True, "peer": r.randrange(self.npeers),
                                "seq": (txseq0 + r.randrange(nreq + 1)) % 2**32})
                elif sent:
                    s = r.choice(sent)
                    evs.append({"t": "timeout", "tx": False, "peer": s["peer"], "seq": s["seq"]})
            elif k == "srr":
                q = (txseq0 + r.randrange(nreq + 1)) % 2**24
                if outstanding and r.random() < 0.7:
                    p, q = outstanding.pop(r.randrange(len(outstanding)))
                    if r.random() < 0.15:
                        p = r.randrange(self.npeers)        # wrong peer
                    if self.p_alias and r.random() < self.p_alias:
                        p += 4                              # right host, wrong port
                hdr = r.choice([0, 0, 10, 11, 77, 1, 2, 2**64 - 1])
                evs.append({"t": "recv", "peer": p, "seq": q, "msg": {"k": "srr", "hdr": hdr}})
                self.env(evs[-1])
            elif k == "otherreq":
                evs.append(recv(p, {"k": "otherreq", "type": r.choice(OTHER_REQ), "seid": seid()}, with_env=False))
            elif k == "otherrsp":
                q = (txseq0 + r.randrange(nreq + 1)) % 2**24
                evs.append({"t": "recv", "peer": p, "seq": q, "msg": {"k": "otherrsp", "type": r.choice(OTHER_RSP), "seid": seid()}})
        return {"maxretrans": r.choice(self.maxretrans_choices), "txseq0": txseq0, "events": evs}

    def usage_history(self):
        """Usage-dense, mostly-valid history (C10 C11 C12): sessions with URRs 1..4 attached to PDRs, then many reports,
        queries, updates, removals (with and without a final report), PDR dissociations, re-creations and deletions,
        all addressed to ids the session really holds (tracked here), with a little noise."""
        r = self.r
        evs = []
        seqs = [r.randrange(1, 50) for _ in range(self.npeers)]
        txseq0 = r.choice(self.txseq0_choices)
        pool = [1, 2, 3, 4]

        def recv(peer, msg, usage=None, fail=None):
            seqs[peer] += 1
            return {"t": "recv", "peer": peer, "seq": seqs[peer], "msg": msg, "fail": fail or [], "usage": usage or []}

        def urr(i):
            return {"id": i, "method": r.choice([None, 1, 2, 3, 6, 7]), "info": r.choice([None, 0, 16, 0x1f])}

        def rpts(i, n=None, exact=False):
            n = r.choice([1, 1, 1, 2, 3]) if n is None else n
            return [self.rpt(i if (exact or r.random() < 0.95) else r.choice(pool)) for _ in range(n)]

        sess = {}     # UP SEID -> {"peer", "urrs": set, "pdrs": {pdr id: [urr ids]}}
        nsess = 0
        p0 = r.randrange(self.npeers)
        evs.append(recv(p0, {"k": "asr", "nid": {"v": p0}}))
        assoc = {p0}
        n = r.randint(10, self.maxlen + 10)
        while len(evs) < n:
            x = r.random()
            if not sess or x < 0.07:
                p = r.choice(sorted(assoc)) if r.random() < 0.8 else r.randrange(self.npeers)
                if p not in assoc:
                    evs.append(recv(p, {"k": "asr", "nid": {"v": p}}))
                    assoc.add(p)
                us = sorted(r.sample(pool, r.choice([1, 2, 2, 3, 4])))
                pdrs = {}
                for pid in range(1, r.choice([1, 2, 2, 3]) + 1):
                    pdrs[pid] = sorted(r.sample(us, r.randint(0, min(2, len(us)))))
                ops = {"cFAR": [1], "cQER": [], "cURR": [urr(i) for i in us], "cBAR": [],
                       "cPDR": [{"id": k, "urrs": v, "ueip": False} for k, v in pdrs.items()]}
                evs.append(recv(p, {"k": "est", "nid": {"v": p}, "fseid": {"v": r.choice([10, 11, 77])}, "ops": ops}))
                nsess += 1
                sess[nsess] = {"peer": p, "urrs": set(us), "pdrs": pdrs}
            elif x < 0.42:
                lid = r.choice(sorted(sess))
                S = sess[lid]
                items = []
                for _ in range(r.choice([1, 1, 2, 3, 4])):
                    u = r.choice(sorted(S["urrs"])) if S["urrs"] and r.random() < 0.9 else r.choice(pool + [9])
                    items.append({"usa": self.rpt(u)})
                if r.random() < 0.05:
                    lid = r.choice([0, nsess + 3])
                evs.append({"t": "report", "seid": lid, "items": items})
            elif x < 0.88:
                lid = r.choice(sorted(sess))
                S = sess[lid]
                ops, usage = {}, []
                for act in r.sample(["q", "u", "r", "c", "rp", "up", "cp"], r.choice([1, 1, 2, 3])):
                    have = sorted(S["urrs"])
                    if act == "q" and have:
                        ids = r.sample(have, r.randint(1, min(2, len(have))))
                        ops["qURR"] = ids
                        usage += [{"op": "query", "id": i, "rpts": rpts(i, exact=True)} for i in ids if r.random() < 0.9]
                    elif act == "u" and have:
                        ids = r.sample(have, r.randint(1, min(2, len(have))))
                        ops["uURR"] = [urr(i) for i in ids]
                        usage += [{"op": "update", "id": i, "rpts": rpts(i)} for i in ids if r.random() < 0.6]
                    elif act == "r" and have:
                        ids = r.sample(have, r.randint(1, min(2, len(have))))
                        ops["rURR"] = ids
                        usage += [{"op": "remove", "id": i, "rpts": rpts(i, r.choice([1, 1, 1, 2]))} for i in ids if r.random() < 0.7]
                        if r.random() < 0.85:
                            S["urrs"] -= set(ids)
                    elif act == "c":
                        free = [i for i in pool if i not in S["urrs"]]
                        if free:
                            ids = r.sample(free, r.randint(1, min(2, len(free))))
                            ops["cURR"] = [urr(i) for i in ids]
                            S["urrs"] |= set(ids)
                    elif act == "rp" and S["pdrs"]:
                        pid = r.choice(sorted(S["pdrs"]))
                        ops["rPDR"] = [pid]
                        for i in S["pdrs"].pop(pid):
                            if r.random() < 0.8:
                                usage.append({"op": "query", "id": i, "rpts": rpts(i, 1, exact=True)})
                    elif act == "up" and S["pdrs"] and have:
                        pid = r.choice(sorted(S["pdrs"]))
                        new = sorted(r.sample(have, r.randint(0, min(2, len(have)))))
                        ops["uPDR"] = [{"id": pid, "urrs": new, "ueip": False}]
                        for i in S["pdrs"][pid]:
                            if i not in new and r.random() < 0.8:
                                usage.append({"op": "query", "id": i, "rpts": rpts(i, 1, exact=True)})
                        if new:
                            S["pdrs"][pid] = new
                    elif act == "cp" and have:
                        pid = r.choice([k for k in (1, 2, 3, 4) if k not in S["pdrs"]] or [5])
                        new = sorted(r.sample(have, r.randint(1, min(2, len(have)))))
                        ops["cPDR"] = [{"id": pid, "urrs": new, "ueip": False}]
                        S["pdrs"][pid] = new
                p = S["peer"] if r.random() < 0.95 else r.randrange(self.npeers)
                evs.append(recv(p, {"k": "mod", "seid": lid, "nid": {"absent": True}, "ops": ops}, usage=usage))
            elif x < 0.95:
                lid = r.choice(sorted(sess))
                S = sess.pop(lid)
                # exact labels: Sess.Close removes the URRs in Go's map order (see Gen.env)
                usage = [{"op": "remove", "id": i, "rpts": rpts(i, r.choice([1, 1, 2]), exact=True)} for i in sorted(S["urrs"]) if r.random() < 0.85]
                evs.append(recv(S["peer"], {"k": "del", "seid": lid}, usage=usage))
            else:
                evs.append({"t": "recv", "peer": r.randrange(self.npeers), "seq": (txseq0 + r.randrange(len(evs) + 1)) % 2**24,
                            "msg": {"k": "srr", "hdr": r.choice([0, 10, 1])}, "fail": [], "usage": []})
        return {"maxretrans": r.choice(self.maxretrans_choices), "txseq0": txseq0, "events": evs}


def directed(rnd):
    """Scripted multi-step scenarios with randomised parameters (always part of every run)."""
    r = rnd
    E = {"fail": [], "usage": []}
    noops = {"cFAR": [], "cQER": [], "cURR": [], "cBAR": [], "cPDR": []}

    def rc(peer, seq, msg, **kw):
        return dict({"t": "recv", "peer": peer, "seq": seq, "msg": msg, "fail": [], "usage": []}, **kw)

    def asr(p, seq, nid=None):
        return rc(p, seq, {"k": "asr", "nid": {"v": p if nid is None else nid}})

    def est(p, seq, cp, ops=None, nid=None):
        return rc(p, seq, {"k": "est", "nid": {"v": p if nid is None else nid}, "fseid": {"v": cp}, "ops": ops or dict(noops)})

    def dld(seid, pdr=1, action=12, pkt="aa"):
        return {"t": "report", "seid": seid, "items": [{"dld": {"pdr": pdr, "action": action, "pkt": pkt}}], "fail": [], "usage": []}

    def srr(p, seq, hdr):
        return rc(p, seq, {"k": "srr", "hdr": hdr})

    out = []
    for _ in range(2):
        a, b = r.sample(range(3), 2)
        t0 = r.choice([0, 5, 2**24 - 1])
        far = {"cFAR": [1, 2], "cQER": [1], "cURR": [{"id": 1, "method": 2, "info": 16}], "cBAR": [], "cPDR": [{"id": 1, "urrs": [1], "ueip": False}]}
        # a session of A is released by a SEID-0 report response, its SEID is re-issued to B, A re-associates
        out.append({"maxretrans": 1, "txseq0": t0, "events": [
            asr(a, 1), asr(b, 1), est(a, 2, 10, far), dld(1), srr(a, t0 % 2**24, 0), est(b, 2, 10, far),
            asr(a, 3), rc(b, 3, {"k": "mod", "seid": 1, "nid": {"absent": True}, "ops": {"cFAR": [3]}}),
            rc(b, 4, {"k": "del", "seid": 1})]})
        # deletion, SEID re-use, stale duplicate, report for the old incarnation
        out.append({"maxretrans": 2, "txseq0": t0, "events": [
            asr(a, 1), est(a, 2, 10, far), est(a, 3, 11, far), rc(a, 4, {"k": "del", "seid": 1}),
            dld(1), est(a, 5, 12, far), rc(a, 4, {"k": "del", "seid": 1}), dld(1), rc(a, 6, {"k": "del", "seid": 1}),
            rc(a, 7, {"k": "del", "seid": 1})]})
    for mr in range(4):
        a = r.randrange(3)
        t0 = r.choice([0, 7, 2**24 - 2])
        evs = [asr(a, 1), est(a, 2, 10), dld(1), dld(1, action=8)]
        for _ in range(mr + 2):
            evs.append({"t": "timeout", "tx": True, "peer": a, "seq": t0 % 2**24})
        evs += [srr((a + 1) % 3, (t0 + 1) % 2**24, 10), srr(a, (t0 + 1) % 2**24, 10), srr(a, (t0 + 1) % 2**24, 10),
                {"t": "timeout", "tx": True, "peer": a, "seq": (t0 + 1) % 2**24}]
        out.append({"maxretrans": mr, "txseq0": t0, "events": evs})
    # takeover to a fresh node id, then re-association under the new id
    a = r.randrange(2)
    out.append({"maxretrans": 1, "txseq0": 0, "events": [
        asr(a, 1), est(a, 2, 10), est(a, 3, 11), rc(a, 4, {"k": "mod", "seid": 1, "nid": {"v": 2}, "ops": {"cFAR": [1]}}),
        asr(a, 5), asr(2, 1, nid=2)]})
    # failed creates, collisions, double removal, then each way of ending
    ops = {"cFAR": [1, 1, 2], "cQER": [1], "cURR": [{"id": 1, "method": 3, "info": 0}], "cBAR": [1], "cPDR": [{"id": 1, "urrs": [1, 1], "ueip": True}]}
    for way in range(3):
        evs = [asr(0, 1), rc(0, 2, {"k": "est", "nid": {"v": 0}, "fseid": {"v": 10}, "ops": ops},
                            fail=[{"op": "create", "kind": "far", "id": 2}, {"op": "create", "kind": "pdr", "id": 1}]),
               rc(0, 3, {"k": "mod", "seid": 1, "nid": {"absent": True},
                         "ops": {"cFAR": [1, 2], "rFAR": [1, 1], "uFAR": [2], "uQER": [2], "rQER": [3], "qURR": [1, 2]}},
                  fail=[{"op": "update", "kind": "far", "id": 2}])]
        evs += [[rc(0, 4, {"k": "del", "seid": 1})], [asr(0, 4)], [dld(1), srr(0, 0, 0)]][way]
        out.append({"maxretrans": 1, "txseq0": 0, "events": evs})
    return out


# ---------------------------------------------------------------- Coq terms

def c_opt(x):
    return "None" if x is None else "(Some %d)" % x


def c_ieval(v):
    if v is None or v.get("absent"):
        return "IeAbsent"
    if v.get("bad"):
        return "IeBad"
    return "(IeVal %d)" % v["v"]


def c_rpt(r):
    cnt = (list(r["cnt"]) + [0] * 6)[:6]
    return "(mkRpt %d %d %d %s %d %d %d)" % (r["urr"], r["trig"], r["vflags"], clist([cN(x) for x in cnt]),
                                            r["dur"], r["start"], r["end"])


def c_env(ev):
    fails = clist(["(%s, %s, %d)" % (OPS[f["op"]], KINDS[f["kind"]], f["id"]) for f in ev.get("fail", [])])
    us = clist(["(%s, %d, %s)" % (OPS[u["op"]], u["id"], clist([c_rpt(x) for x in u["rpts"]])) for u in ev.get("usage", [])])
    return "(mkEnv %s %s)" % (fails, us)


def c_ops(o):
    o = o or {}

    def ids(k):
        return clist([c_opt(x) for x in o.get(k, [])])

    def urrs(k):
        return clist(["(mkUrrOp %s %s %s)" % (c_opt(u.get("id")), c_opt(u.get("method")), c_opt(u.get("info")))
                      for u in o.get(k, [])])

    def pdrs(k):
        return clist(["(mkPdrOp %s %s %s %s)" % (c_opt(p.get("id")), clist([cN(u) for u in p.get("urrs", [])]),
                                                cbool(len(p.get("urrs", [])) > 0), cbool(p.get("ueip", False)))
                      for p in o.get(k, [])])
    return "(mkOps %s %s %s %s %s %s %s %s %s %s %s %s %s %s %s %s)" % (
        ids("cFAR"), ids("cQER"), urrs("cURR"), ids("cBAR"), pdrs("cPDR"),
        ids("rFAR"), ids("rQER"), ids("rURR"), ids("rBAR"), ids("rPDR"),
        ids("uFAR"), ids("uQER"), urrs("uURR"), ids("uBAR"), pdrs("uPDR"), ids("qURR"))


_ORDERS = {}


def handler_orders():
    """category order of the establishment / modification handlers as T-gen extracted it (coq/gen/HandlerGen.v), as ops keys"""
    if not _ORDERS:
        txt = open(os.path.join(common.COQ, "gen", "HandlerGen.v")).read()
        for name in ("est_order", "mod_order"):
            m = re.search(r"Definition %s : list string := \[(.*?)\]\." % name, txt, re.S)
            keys = []
            for nm in re.findall(r'"(\w+):\w+"', m.group(1)):
                verb, kind = nm[:6], nm[6:]
                keys.append({"Create": "c", "Remove": "r", "Update": "u"}.get(verb, "q") + kind if verb != "QueryU" else "qURR")
            _ORDERS[name] = keys
    return _ORDERS


def truncate_ops(ops, order, target):
    """the operations a handler had run when its driver call target = {op, kind, id} panicked: every category before the
    target's, the target's category up to and including the first entry with that id, nothing after"""
    ops = ops or {}
    key = {"create": "c", "update": "u"}[target["op"]] + target["kind"].upper()
    out = {}
    for k in order:
        lst = ops.get(k, []) or []
        if k != key:
            out[k] = lst
            continue
        keep = []
        for x in lst:
            keep.append(x)
            xid = x.get("id") if isinstance(x, dict) else x
            if xid == target["id"]:
                break
        out[k] = keep
        break
    return out


def c_event(ev, reset_order, obs=None):
    if ev["t"] == "recv" and obs is not None and obs.get("panicked") and ev["msg"]["k"] in ("est", "mod"):
        # the scripted driver panic fired: the model's event is "handler aborted after these operations"
        m = ev["msg"]
        o = truncate_ops(m.get("ops"), handler_orders()["est_order" if m["k"] == "est" else "mod_order"], ev["panic"])
        if m["k"] == "est":
            ms = "(MEst %s %s %s)" % (c_ieval(m.get("nid")), c_ieval(m.get("fseid")), c_ops(o))
        else:
            ms = "(MMod %d %s %s)" % (m["seid"], c_ieval(m.get("nid")), c_ops(o))
        return "(EvRecvAbort %d %d %s %s)" % (ev["peer"], ev["seq"], ms, c_env(ev))
    if ev["t"] == "recv":
        m = ev["msg"]
        k = m["k"]
        if k == "hb":
            ms = "MHeartbeat"
        elif k == "asr":
            ms = "(MAssocSetup %s %s)" % (c_ieval(m.get("nid")), clist([cN(x) for x in reset_order]))
        elif k == "est":
            ms = "(MEst %s %s %s)" % (c_ieval(m.get("nid")), c_ieval(m.get("fseid")), c_ops(m.get("ops")))
        elif k == "mod":
            ms = "(MMod %d %s %s)" % (m["seid"], c_ieval(m.get("nid")), c_ops(m.get("ops")))
        elif k == "del":
            ms = "(MDel %d)" % m["seid"]
        elif k == "otherreq":
            ms = "MOtherReq"
        elif k == "srr":
            ms = "(MReportRsp %d)" % m["hdr"]
        else:
            ms = "MOtherRsp"
        wf = ev.get("wfail") and obs is not None and not (obs.get("sends") or [])
        return "(%s %d %d %s %s)" % ("EvRecvWF" if wf else "EvRecv", ev["peer"], ev["seq"], ms, c_env(ev))
    if ev["t"] == "report":
        items = []
        for it in ev["items"]:
            if it.get("dld"):
                d = it["dld"]
                items.append("(RDld %d %d %s)" % (d["pdr"], d["action"], common.cbytes_hex(d["pkt"])))
            else:
                items.append("(RUsa %s)" % c_rpt(it["usa"]))
        # a report served while the socket's writes fail (harness hook): the model's event is EvReportWF - unless a datagram
        # left all the same (the loop outran the harness's grace period: the write evidently succeeded, an ordinary report)
        wf = ev.get("wfail") and len(ev["items"]) == 1 and obs is not None and not (obs.get("sends") or [])
        return "(%s %d %s %s)" % ("EvReportWF" if wf else "EvReport", ev["seid"], clist(items), c_env(ev))
    if ev["t"] == "timeout":
        wf = ev["tx"] and ev.get("wfail") and obs is not None and not (obs.get("sends") or [])
        return "(%s %d %d)" % (("EvTimeoutTxWF" if wf else "EvTimeoutTx") if ev["tx"] else "EvTimeoutRx", ev["peer"], ev["seq"])
    raise ValueError(ev["t"])


def c_ur(u):
    times = "None" if u["start"] is None or u["end"] is None else "(Some (%d, %d))" % (u["start"], u["end"])
    vol = "None" if u["vol"] is None else "(Some (%d, %s))" % (u["vol"]["flags"], clist([cN(x) for x in u["vol"]["cnt"]]))
    dur = "None" if u["dur"] is None else "(Some %d)" % u["dur"]
    return "(mkUie %d %d %d %s %s %s)" % (u["urr"], u["seqn"], u["trig"], times, vol, dur)


def c_pdu(s):
    t = s["type"]
    urs = clist([c_ur(u) for u in (s["urs"] or [])])
    if t == "hbrsp":
        return "(PHeartbeatRsp %d)" % s["seq"]
    if t == "asrsp":
        return "(PAssocRsp %d %d)" % (s["seq"], max(s["cause"], 0))
    if t == "estrsp":
        return "(PEstRsp %d %d %d %d %s)" % (s["seq"], s["seid"], max(s["cause"], 0), s["fseid"],
                                            clist([cN(x) for x in (s["created"] or [])]))
    if t == "modrsp":
        return "(PModRsp %d %d %d %s)" % (s["seq"], s["seid"], max(s["cause"], 0), urs)
    if t == "delrsp":
        return "(PDelRsp %d %d %d %s)" % (s["seq"], s["seid"], max(s["cause"], 0), urs)
    if t == "srreq":
        if s["dldr"] >= 0:
            return "(PReportDLDR %d %d %d)" % (s["seq"], s["seid"], s["dldr"])
        return "(PReportUSAR %d %d %s)" % (s["seq"], s["seid"], urs)
    return "(PHeartbeatRsp 99999999)"        # a datagram the model never produces


class Names:
    """Maps the implementation's addresses / node ids / object pointers to the model's indices."""

    def __init__(self, prefix):
        self.prefix = prefix
        self.obj = {}
        self.nobj = 0
        self.prev = set()

    def peer_of_ip(self, ip):
        if ip.startswith(self.prefix):
            try:
                return int(ip[len(self.prefix):]) - 10
            except ValueError:
                return None
        return None

    def peer_of_addr(self, addr):
        """'ip:8805' -> peer k ; 'ip:9805' -> alias peer k + 4 (the harness's second socket on peer k's address)"""
        for port, off in ((":8805", 0), (":9805", 4)):
            if addr.endswith(port):
                p = self.peer_of_ip(addr[:-5])
                return None if p is None else p + off
        return None

    def key(self, k):
        i = k.rfind("-")
        try:
            addr, seq = k[:i], int(k[i + 1:])
        except ValueError:          # not "<address>-<decimal>": shows up as a key the model never holds
            return 999, 0
        p = self.peer_of_addr(addr)
        if p is not None:
            return p, seq
        return None, seq

    def objects(self, dump):
        present = [n["obj"] for n in (dump["nodes"] or [])]
        for o in present:
            if o not in self.prev:          # new object (or a recycled address of an unreachable one)
                self.obj[o] = self.nobj
                self.nobj += 1
        self.prev = set(present)


def c_dump(d, dp, names):
    names.objects(d)

    def sd(s):
        if s is None:
            return "None"
        pdrs = clist(["(%d, %s)" % (p["id"], clist([cN(u) for u in (p["urrs"] or [])])) for p in (s["pdrs"] or [])])
        urrs = clist(["(%d, (%s, %d, %d, (%s, %s, %s, %s)))" % (u["id"], cbool(u["removed"]), u["seqn"], u["ref"],
                                                               cbool(u["durat"]), cbool(u["volum"]), cbool(u["event"]), cbool(u["mnop"]))
                      for u in (s["urrs"] or [])])
        q = clist(["(%d, %s)" % (x["pdr"], clist([common.cbytes_hex(p) if p != "closed" else "[999999]" for p in (x["pkts"] or [])]))
                   for x in (s["q"] or [])])
        return "(Some (mkSd %d %d %d %s %s %s %s %s %s))" % (
            s["lid"], s["rid"], names.obj.get(s["node"], 999), pdrs, clist([cN(x) for x in (s["fars"] or [])]),
            clist([cN(x) for x in (s["qers"] or [])]), clist([cN(x) for x in (s["bars"] or [])]), urrs, q)

    nodes = []
    for n in (d["nodes"] or []):
        nid = names.peer_of_ip(n["id"])
        addr = names.peer_of_addr(n["addr"])
        nodes.append("(%d, (%d, %d, %s))" % (names.obj[n["obj"]], 999 if nid is None else nid, 999 if addr is None else addr,
                                             clist([cN(x) for x in (n["sess"] or [])])))
    rnodes = []
    for k, v in (d["rnodes"] or {}).items():
        nid = names.peer_of_ip(k)
        rnodes.append("(%d, %d)" % (999 if nid is None else nid, names.obj.get(v, 999)))
    rx = []
    for e in (d["rx"] or []):
        p, seq = names.key(e["key"])
        if p is not None and p >= 0:
            rx.append("(%d, %d, %s)" % (p, seq, cbool(e["cached"])))
    tx = []
    for e in (d["tx"] or []):
        p, seq = names.key(e["key"])
        tx.append("(%d, %d, %d)" % (999 if p is None else p, seq, e["count"]))
    dpl = clist(["(%d, %d, %d)" % tuple(x) for x in (dp or [])])
    return "(mkDump %s %s %s %s %s %s %d %s)" % (
        clist([sd(s) for s in (d["slots"] or [])]), clist([cN(x) for x in (d["free"] or [])]),
        clist(nodes), clist(rnodes), clist(rx), clist(tx), d["txseq"], dpl)


def c_obs(o, names):
    drv = clist(["(%s, %s, %d, %d, %s)" % (OPS[x["op"]], KINDS[x["kind"]], x["seid"], x["id"], cbool(x["ok"]))
                 for x in (o["drv"] or [])])
    sends = clist(["(%d, %s, %d)" % (s["dst"], c_pdu(s), s["class"]) for s in (o["sends"] or [])])
    if o["fault"]:
        return "(mkObs %s %s None true)" % (drv, sends)
    return "(mkObs %s %s (Some %s) false)" % (drv, sends, c_dump(o["dump"], o["dp"], names))


def reset_orders(case, obs):
    """Map-iteration oracle of RemoteNode.Reset, read off the implementation's free list."""
    orders = []
    prev_free = []
    for ev, o in zip(case["events"], obs):
        order = []
        if o.get("dump"):
            free = o["dump"]["free"] or []
            if ev["t"] == "recv" and ev["msg"]["k"] == "asr" and free[:len(prev_free)] == prev_free:
                order = free[len(prev_free):]
            prev_free = free
        orders.append(order)
    return orders


def c_case(case, obs, prefix):
    names = Names(prefix)
    orders = reset_orders(case, obs)
    items = []
    prev = None
    for ev, o, ro in zip(case["events"], obs, orders):
        if o.get("panicked") and ev["t"] == "recv" and ev["msg"]["k"] == "del":
            break       # an aborted deletion is outside the model (see Gen.env): compare the history up to here
        if o.get("panicked") and ev["t"] == "recv" and ev["msg"]["k"] == "mod" and ev.get("panic", {}).get("op") == "create" \
                and ev["panic"]["kind"] in ("urr", "pdr") and prev is not None:
            # Create URR / Create PDR for an id the session HOLDS restores the previous bookkeeping when the driver returns an
            # error; a panic skips that restore.  The model's abort event treats the panicking call as a failed call, so this
            # one case is outside it: compare the history up to here
            sl = [x for x in (prev.get("slots") or []) if x is not None and x["lid"] == ev["msg"]["seid"]]
            held = set()
            if sl:
                key = "urrs" if ev["panic"]["kind"] == "urr" else "pdrs"
                held = {x["id"] for x in (sl[0].get(key) or []) if not x.get("removed")}
            if ev["panic"]["id"] in held:
                break
        items.append("(%s, %s)" % (c_event(ev, ro, o), c_obs(o, names)))
        prev = o.get("dump") or prev
    return "(mkCase %d %d %s)" % (case["txseq0"], case["maxretrans"], clist(items))


# ---------------------------------------------------------------- driver

def run_cases(ctx, harness, cases, extra_defs="", extra_prints=(), shard=12, tag=""):
    """Runs the cases on the implementation and on the model (inside Coq; shards compiled in parallel).
    Returns dict(impl=..., diffs=[(case, event, code)], extra={ident: term}, log=...)."""
    from concurrent.futures import ThreadPoolExecutor
    res, log = common.run_harness(ctx, harness, "pfcp", cases, timeout=3000, tag=tag)
    if res is None:
        return {"error": "harness run failed: " + log[-1500:]}
    prefix, impl = res["prefix"], res["cases"]
    diffs, extra = [], {}

    def one(k):
        chunk = list(zip(cases[k:k + shard], impl[k:k + shard]))
        body = "Definition cases : list pcase := \n" + clist([c_case(c, o, prefix) for c, o in chunk]) + ".\n"
        body += "Definition diffs := Eval vm_compute in cases_diff cases 0.\n" + extra_defs
        return k, common.run_coq_cases(ctx, "cases_pfcp%s_%d" % (tag, k), body, REQUIRES, ["diffs"] + list(extra_prints))

    with ThreadPoolExecutor(max_workers=14) as ex:
        results = list(ex.map(one, range(0, len(cases), shard)))
    for k, (out, clog) in results:
        if out is None:
            return {"error": "cases file does not compile (model broken?): " + clog[-1500:], "impl": impl, "prefix": prefix}
        nums = common.parse_N_list(out["diffs"])
        for j in range(0, len(nums) - 2, 3):
            diffs.append((k + nums[j], nums[j + 1], nums[j + 2]))
        for p in extra_prints:
            extra.setdefault(p, []).append((k, out.get(p, "")))
    return {"impl": impl, "prefix": prefix, "diffs": diffs, "extra": extra}


def distinct_nontrivial(cases):
    seen = set()
    for c in cases:
        if any(e["t"] == "recv" and e["msg"]["k"] in ("est", "mod", "del") for e in c["events"]):
            seen.add(hashlib.sha256(json.dumps(c, sort_keys=True).encode()).hexdigest())
    return len(seen)


def distribution(cases):
    d = {}
    for c in cases:
        for e in c["events"]:
            k = e["t"] if e["t"] != "recv" else e["msg"]["k"]
            d[k] = d.get(k, 0) + 1
            if e.get("wfail"):
                d[e["t"] + "_with_failing_write"] = d.get(e["t"] + "_with_failing_write", 0) + 1
            if e.get("peer", 0) >= 4 and e["t"] == "recv":
                d["recv_from_alias_socket"] = d.get("recv_from_alias_socket", 0) + 1
    d["histories"] = len(cases)
    d["events"] = sum(len(c["events"]) for c in cases)
    return d


DIFF_CODES = {1: "driver-call multiset", 2: "datagrams sent", 10: "model faults, implementation does not",
              11: "implementation faults (fatal/hang), model does not", 31: "session slots", 32: "free list",
              33: "node objects", 34: "node table", 35: "rx transactions", 36: "tx transactions", 37: "txSeq",
              38: "data-plane content", 39: "no dump"}
